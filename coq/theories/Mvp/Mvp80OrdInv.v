(* Soundness of the ghost flag of the model of MVP-8.0, part 5: the invariants of Mvp80OrdInvDefs.v hold initially and are
   preserved by every function of the memory system and by a tick (step8_inv, snoop_arg8_inv, init8_inv). *)
From Coq Require Import ZArith List Bool Lia Permutation.
From Maj Require Import Base.Outcome Base.GoInt Base.GoTypes Isa.Spec Isa.Seq.
From Maj Require Import Gen.Latency Gen.RiscTables Gen.Opcodes Comp.Cache Comp.Rat Mvp.Mvp12 Mvp.Mvp3 Mvp.Mvp5 Mvp.Mvp60 Mvp.Mvp63 Mvp.Mvp80.
From Maj Require Import Mvp.Mvp60Proofs Mvp.Mvp63Proofs Mvp.Mvp80Proofs Mvp.Mvp80OrdIds Mvp.Mvp80OrdProofs.
From Maj Require Import Mvp.Mvp80OrdSnoop Mvp.Mvp80OrdCache Mvp.Mvp80OrdInvDefs.
Import ListNotations.
Open Scope Z_scope.

(* ------------------------------------------------------------------ *)
(* 0. arithmetic                                                        *)
(* ------------------------------------------------------------------ *)

Lemma p31 : 2^31 = 2147483648. Proof. reflexivity. Qed.

Lemma wrapS32_eq : forall x, wrapS 32 x = (x + 2147483648) mod 4294967296 - 2147483648.
Proof. intros x. reflexivity. Qed.

Lemma int32_iff : forall x, int32 x <-> -2147483648 <= x < 2147483648.
Proof. intros x. apply int32_bounds. Qed.

Lemma wrapS32_id : forall x, -2147483648 <= x < 2147483648 -> wrapS 32 x = x.
Proof. intros x H. apply wrapS_id; [lia | apply int32_iff; exact H]. Qed.

Lemma wrapS32_range : forall x, -2147483648 <= wrapS 32 x < 2147483648.
Proof. intros x. pose proof (wrapS_range 32 x ltac:(lia)) as H. apply int32_iff in H. exact H. Qed.

Lemma wrapS32_mult64 : forall q, exists k, wrapS 32 (64 * q) = 64 * k.
Proof.
  intros q. exists (q - 67108864 * ((64 * q + 2147483648) / 4294967296)).
  rewrite wrapS32_eq. lia.
Qed.

Lemma wrapS32_mult128 : forall q, exists k, wrapS 32 (128 * q) = 128 * k.
Proof.
  intros q. exists (q - 33554432 * ((128 * q + 2147483648) / 4294967296)).
  rewrite wrapS32_eq. lia.
Qed.

Lemma sub_rem_quot : forall x n, x - Z.rem x n = n * Z.quot x n.
Proof. intros x n. pose proof (Z.quot_rem' x n). lia. Qed.

Lemma align8_eq : forall x n, align8 x n = wrapS 32 (n * Z.quot x n).
Proof. intros x n. unfold align8, subS, remS. rewrite sub_rem_quot. reflexivity. Qed.

Lemma align8_of_mult : forall y n, n <> 0 -> -2147483648 <= y < 2147483648 -> Z.rem y n = 0 -> align8 y n = y.
Proof.
  intros y n Hn Hy Hr. unfold align8, subS, remS. rewrite Hr, Z.sub_0_r. apply wrapS32_id. exact Hy.
Qed.

Lemma rem_mult : forall n k, n <> 0 -> Z.rem (n * k) n = 0.
Proof. intros n k Hn. rewrite Z.mul_comm. apply Z.rem_mul. exact Hn. Qed.

Lemma align8_idem64 : forall x, l1_align (l1_align x) = l1_align x.
Proof.
  intros x. unfold l1_align, l1dLineSize. rewrite (align8_eq x 64).
  destruct (wrapS32_mult64 (Z.quot x 64)) as [k E].
  apply align8_of_mult; [lia | apply wrapS32_range |]. rewrite E. apply rem_mult. lia.
Qed.

Lemma align8_idem128 : forall x, l3_align (l3_align x) = l3_align x.
Proof.
  intros x. unfold l3_align, l3LineSize8. rewrite (align8_eq x 128).
  destruct (wrapS32_mult128 (Z.quot x 128)) as [k E].
  apply align8_of_mult; [lia | apply wrapS32_range |]. rewrite E. apply rem_mult. lia.
Qed.

Lemma align8_range : forall x n, -2147483648 <= align8 x n < 2147483648.
Proof. intros x n. unfold align8, subS. apply wrapS32_range. Qed.

Lemma wf_line_lo64 : forall l, wf_line 64 l -> l1_align (lo l) = lo l.
Proof.
  intros l (R & M & _). rewrite p31 in R. unfold l1_align, l1dLineSize. apply align8_of_mult; [lia | lia | exact M].
Qed.

Lemma wf_line_lo128 : forall l, wf_line 128 l -> l3_align (lo l) = lo l.
Proof.
  intros l (R & M & _). rewrite p31 in R. unfold l3_align, l3LineSize8. apply align8_of_mult; [lia | lia | exact M].
Qed.

Lemma wf_covers : forall n l x, wf_line n l -> 0 < n <= 128 -> covers l x = true ->
  lo l <= x < lo l + n /\ x < 2147483648.
Proof.
  intros n l x (R & _ & H & _) Hn C. rewrite p31 in R. unfold covers in C.
  apply andb_true_iff in C as [C1 C2]. apply Z.leb_le in C1. apply Z.ltb_lt in C2.
  rewrite H in C2. unfold addS in C2. rewrite wrapS32_eq in C2. lia.
Qed.

Lemma rem_nonneg_mod : forall x n, 0 <= x -> 0 < n -> Z.rem x n = x mod n.
Proof. intros x n Hx Hn. apply Z.rem_mod_nonneg; lia. Qed.

(* an address covered by a wf line: its alignment is the base of the line *)
Lemma wf_covers_align64 : forall l x, wf_line 64 l -> covers l x = true -> l1_align x = lo l.
Proof.
  intros l x W C. pose proof (wf_covers 64 l x W ltac:(lia) C) as [B1 B2].
  destruct W as (R & M & _). rewrite p31 in R.
  unfold l1_align, l1dLineSize, align8, subS, remS.
  rewrite rem_nonneg_mod in M by lia. rewrite (rem_nonneg_mod x 64) by lia.
  rewrite wrapS32_id by lia. lia.
Qed.

Lemma wf_covers_align128 : forall l x, wf_line 128 l -> covers l x = true -> l3_align x = lo l.
Proof.
  intros l x W C. pose proof (wf_covers 128 l x W ltac:(lia) C) as [B1 B2].
  destruct W as (R & M & _). rewrite p31 in R.
  unfold l3_align, l3LineSize8, align8, subS, remS.
  rewrite rem_nonneg_mod in M by lia. rewrite (rem_nonneg_mod x 128) by lia.
  rewrite wrapS32_id by lia. lia.
Qed.

(* the base of the L1 sub line of an address covered by a wf L3 line *)
Lemma wf_covers_sub64 : forall l x, wf_line 128 l -> covers l x = true -> addr_ok (align8 x 64).
Proof.
  intros l x W C. pose proof (wf_covers 128 l x W ltac:(lia) C) as [B1 B2].
  destruct W as (R & M & _). rewrite p31 in R.
  unfold addr_ok, align8, subS, remS. rewrite p31.
  rewrite (rem_nonneg_mod x 64) by lia. rewrite wrapS32_id by lia. lia.
Qed.

(* ------------------------------------------------------------------ *)
(* 0. caches                                                            *)
(* ------------------------------------------------------------------ *)

Lemma line_get_covers : forall l a v, line_get l a = Ok (Some v) -> covers l a = true.
Proof.
  intros l a v H. unfold line_get in H. fold (covers l a) in H.
  destruct (covers l a); [reflexivity | discriminate].
Qed.

Lemma find_line_some : forall ls a v l rest, find_line ls a = Ok (Some (v, l, rest)) ->
  covers l a = true /\ In l ls /\ (forall x, In x rest -> In x ls).
Proof.
  induction ls as [|h t IH]; intros a v l rest H; cbn [find_line] in H; [discriminate|].
  apply bind_ok in H as (r & E & H). destruct r as [v0|].
  - inversion H; subst. split; [eapply line_get_covers; eauto|]. split; [left; reflexivity|].
    intros x Hx. right. exact Hx.
  - apply bind_ok in H as (r' & E' & H). destruct r' as [[[v1 l1] t1]|]; [|discriminate].
    inversion H; subst. destruct (IH _ _ _ _ E') as (C & I & S).
    split; [exact C|]. split; [right; exact I|].
    intros x [Hx|Hx]; [left; exact Hx | right; apply S; exact Hx].
Qed.

Lemma find_line_forall : forall (P : line -> Prop) ls a v l rest, find_line ls a = Ok (Some (v, l, rest)) ->
  Forall P ls -> P l /\ Forall P rest.
Proof.
  intros P ls a v l rest H F. destruct (find_line_some _ _ _ _ _ H) as (_ & I & S).
  rewrite Forall_forall in F. split; [apply F; exact I|].
  apply Forall_forall. intros x Hx. apply F. apply S. exact Hx.
Qed.

Lemma wf_cache_set : forall n c ls, wf_cache n c -> Forall (wf_line n) ls -> wf_cache n (set_lines c ls).
Proof. intros n c ls [L _] F. split; [exact L | exact F]. Qed.

Lemma get_wf : forall n c a c' o, get c a = Ok (c', o) -> wf_cache n c -> wf_cache n c'.
Proof.
  intros n c a c' o H W. unfold get in H. apply bind_ok in H as (r & E & H).
  destruct r as [[[v l] rest]|]; inversion H; subst; [|exact W].
  destruct (find_line_forall (wf_line n) _ _ _ _ _ E (proj2 W)) as [Pl Pr].
  apply wf_cache_set; [exact W | constructor; assumption].
Qed.

Lemma evict_wf : forall n c a c' o, evict_cache_line c a = Ok (c', o) -> wf_cache n c -> wf_cache n c'.
Proof.
  intros n c a c' o H W. unfold evict_cache_line in H. apply bind_ok in H as (r & E & H).
  destruct r as [[[v l] rest]|]; inversion H; subst; [|exact W].
  destruct (find_line_forall (wf_line n) _ _ _ _ _ E (proj2 W)) as [Pl Pr].
  apply wf_cache_set; [exact W | exact Pr].
Qed.

Lemma get_all_wf : forall n addrs c acc c' o, get_all c addrs acc = Ok (c', o) -> wf_cache n c -> wf_cache n c'.
Proof.
  intros n. induction addrs as [|a t IH]; intros c acc c' o H W; cbn [get_all] in H.
  - inversion H; subst. exact W.
  - apply bind_ok in H as ([c1 [v|]] & E & H).
    + eapply IH; [exact H|]. eapply get_wf; eauto.
    + inversion H; subst. eapply get_wf; eauto.
Qed.

Lemma upd_length : forall d n v, length (upd d n v) = length d.
Proof. induction d as [|x t IH]; intros [|n] v; cbn [upd length]; auto. Qed.

Lemma idx_set_length : forall d i v d', idx_set d i v = Ok d' -> zlen d' = zlen d.
Proof.
  intros d i v d' H. unfold idx_set in H. destruct (_ && _); [|discriminate].
  inversion H; subst. unfold zlen. rewrite upd_length. reflexivity.
Qed.

Lemma set_bytes_length : forall vs d lo_ addr i d', set_bytes d lo_ addr i vs = Ok d' -> zlen d' = zlen d.
Proof.
  induction vs as [|v t IH]; intros d lo_ addr i d' H; cbn [set_bytes] in H.
  - inversion H; reflexivity.
  - apply bind_ok in H as (d1 & E & H). apply IH in H. apply idx_set_length in E. congruence.
Qed.

Lemma write_lines_wf : forall n ls a vs ls', write_lines ls a vs = Ok ls' ->
  Forall (wf_line n) ls -> Forall (wf_line n) ls'.
Proof.
  intros n. induction ls as [|l t IH]; intros a vs ls' H F; cbn [write_lines] in H; [discriminate|].
  inversion F as [|? ? Fl Ft]; subst.
  apply bind_ok in H as (r & E & H). destruct r as [v|].
  - apply bind_ok in H as (d & Ed & H). inversion H; subst. constructor; [|exact Ft].
    apply set_bytes_length in Ed. destruct Fl as (A & B & C & D).
    unfold wf_line. cbn [lo hi data]. repeat split; try assumption; try lia; try congruence.
  - apply bind_ok in H as (t' & Et & H). inversion H; subst. constructor; [exact Fl|]. eapply IH; eauto.
Qed.

Lemma write_wf : forall n c a vs c', write c a vs = Ok c' -> wf_cache n c -> wf_cache n c'.
Proof.
  intros n c a vs c' H W. unfold write in H. apply bind_ok in H as (ls & E & H). inversion H; subst.
  apply wf_cache_set; [exact W|]. eapply write_lines_wf; eauto. exact (proj2 W).
Qed.

Lemma last_in : forall {A} (l : list A) d, l <> [] -> In (last l d) l.
Proof.
  induction l as [|x t IH]; intros d H; [contradiction|].
  destruct t as [|y t']; [left; reflexivity|]. right. apply IH. discriminate.
Qed.

Lemma push_line_warn_wf : forall n c addr d c' o, push_line_warn c addr d = Ok (c', o) ->
  wf_cache n c -> wf_line n (new_line c addr d) ->
  wf_cache n c' /\ (forall v, o = Some v -> wf_line n v).
Proof.
  intros n c addr d c' o H W N. unfold push_line_warn in H. cbv zeta in H.
  assert (F : Forall (wf_line n) (new_line c addr d :: lines c)) by (constructor; [exact N | exact (proj2 W)]).
  destruct (_ >? _); injection H as <- <-.
  - split; [apply wf_cache_set; assumption|]. intros v Hv. injection Hv as <-.
    rewrite Forall_forall in F. apply F. apply (last_in (new_line c addr d :: lines c)). discriminate.
  - split; [apply wf_cache_set; assumption|]. intros v Hv. discriminate.
Qed.

Lemma new_line_wf : forall n c addr d, llen c = n -> 0 < n <= 128 -> addr_ok addr -> Z.rem addr n = 0 -> zlen d = n ->
  wf_line n (new_line c addr d).
Proof.
  intros n c addr d L Hn A R Z. unfold wf_line, new_line. cbn [lo hi data].
  repeat split; try assumption; try apply A.
  rewrite L. unfold to_i32. rewrite (wrapS32_id n) by lia. reflexivity.
Qed.

Lemma Forall_firstn : forall {A} (P : A -> Prop) n l, Forall P l -> Forall P (firstn n l).
Proof.
  intros A P. induction n as [|n IH]; intros l F; [constructor|].
  destruct l as [|x t]; [constructor|]. inversion F; subst. cbn [firstn]. constructor; auto.
Qed.

Lemma existing_lines_forall : forall (P : line -> Prop) c ls, existing_lines c = Ok ls ->
  Forall P (lines c) -> Forall P ls.
Proof.
  intros P c ls H F. unfold existing_lines in H. cbv zeta in H.
  destruct (_ <? 0); [discriminate|]. inversion H; subst. apply Forall_firstn. exact F.
Qed.

Lemma sub_loop_addr : forall ls addrs a d, sub_loop ls addrs 64 = Ok (Some (a, d)) ->
  Forall (wf_line 128) ls -> addr_ok a.
Proof.
  induction ls as [|l t IH]; intros addrs a d H F; cbn [sub_loop] in H; [discriminate|].
  inversion F as [|? ? Fl Ft]; subst.
  destruct addrs as [|a0 rest]; [discriminate|].
  apply bind_ok in H as (r & E & H). destruct r as [v|].
  - change (64 =? 0) with false in H. cbv iota zeta in H. change (64 <? 0) with false in H. cbv iota in H.
    apply bind_ok in H as (dd & _ & H). inversion H; subst.
    apply line_get_covers in E. exact (wf_covers_sub64 l a0 Fl E).
  - eapply IH; eauto.
Qed.

Lemma get_sub_addr : forall c addrs a d, get_sub_cache_line c addrs l1dLineSize = Ok (Some (a, d)) ->
  wf_cache 128 c -> addr_ok a.
Proof.
  intros c addrs a d H W. unfold get_sub_cache_line in H. apply bind_ok in H as (ls & E & H).
  eapply sub_loop_addr; [exact H|]. eapply existing_lines_forall; [exact E | exact (proj2 W)].
Qed.

Lemma fetch_line8_addr : forall mem a f, fetch_line8 mem a l3LineSize8 = Ok f -> addr_ok (fst f).
Proof.
  intros mem a f H. unfold fetch_line8 in H. cbv zeta in H.
  destruct (align8 a l3LineSize8 <? 0) eqn:E.
  - change (0 <? l3LineSize8) with true in H. discriminate.
  - cbn [andb] in H. inversion H; subst. cbn [fst]. apply Z.ltb_ge in E.
    pose proof (align8_range a l3LineSize8). unfold addr_ok. rewrite p31. lia.
Qed.

Lemma ck_eqb_eq : forall a b, ck_eqb a b = true <-> a = b.
Proof.
  intros [a1 a2 a3] [b1 b2 b3]. unfold ck_eqb. cbn [ck_id ck_addr ck_req].
  rewrite !andb_true_iff, !Z.eqb_eq. split.
  - intros [[-> ->] ->]. reflexivity.
  - intros E. inversion E. auto.
Qed.

Lemma ck_eqb_refl : forall a, ck_eqb a a = true.
Proof. intros a. apply ck_eqb_eq. reflexivity. Qed.

(* ------------------------------------------------------------------ *)
(* 1. the directory                                                     *)
(* ------------------------------------------------------------------ *)

Lemma keys_le_refl : forall k, keys_le k k.
Proof. intros k key H. exact H. Qed.

Lemma keys_le_trans : forall k1 k2 k3, keys_le k1 k2 -> keys_le k2 k3 -> keys_le k1 k3.
Proof. intros k1 k2 k3 H1 H2 key H. apply H2. apply H1. exact H. Qed.

Lemma keys_le_same : forall k k', k_states k' = k_states k -> keys_le k k'.
Proof. intros k k' E key H. rewrite E. exact H. Qed.

Lemma cmds_ok_same : forall k k', k_cmds k' = k_cmds k -> k_next k' = k_next k -> cmds_ok k -> cmds_ok k'.
Proof. intros k k' E1 E2 H. unfold cmds_ok in *. rewrite E1, E2. exact H. Qed.

Lemma pget_ck_none : forall key (m : list (cmdk * Z)), pget ck_eqb key m = None -> ~ In key (map fst m).
Proof.
  intros key. induction m as [|[k' v] t IH]; intros H I; [exact I|].
  cbn [pget] in H. destruct (ck_eqb key k') eqn:E; [discriminate|].
  destruct I as [I|I].
  - cbn [fst] in I. subst k'. rewrite ck_eqb_refl in E. discriminate.
  - exact (IH H I).
Qed.

Lemma pset_zz_keeps : forall key key' v (m : list ((Z * Z) * Z)),
  pget zz_eqb key m <> None -> pget zz_eqb key (pset zz_eqb key' v m) <> None.
Proof.
  intros key key' v. induction m as [|[k0 v0] t IH]; intros H; [exfalso; apply H; reflexivity|].
  cbn [pget pset] in *. destruct (zz_eqb key' k0) eqn:E1.
  - cbn [pget]. destruct (zz_eqb key k0) eqn:E2.
    + apply zz_eqb_eq in E1. apply zz_eqb_eq in E2. subst.
      assert (R : zz_eqb k0 k0 = true) by (apply zz_eqb_eq; reflexivity). rewrite R. discriminate.
    + apply zz_eqb_eq in E1. subst. rewrite E2. exact H.
  - cbn [pget]. destruct (zz_eqb key k0); [discriminate|]. apply IH. exact H.
Qed.

Lemma pset_zz_exists : forall key v (m : list ((Z * Z) * Z)), pget zz_eqb key (pset zz_eqb key v m) <> None.
Proof.
  intros key v. assert (R : zz_eqb key key = true) by (apply zz_eqb_eq; reflexivity).
  induction m as [|[k0 v0] t IH]; cbn [pset pget].
  - rewrite R. discriminate.
  - destruct (zz_eqb key k0) eqn:E; cbn [pget]; [rewrite R; discriminate|]. rewrite E. exact IH.
Qed.

Lemma keys_le_pset : forall k key v b, keys_le k (set_states k (pset zz_eqb key v (k_states k)) b).
Proof. intros k key v b key0 H. cbn [set_states k_states]. apply pset_zz_keeps. exact H. Qed.

Lemma NoDup_map_filter : forall {A B} (f : A -> B) (p : A -> bool) l, NoDup (map f l) -> NoDup (map f (filter p l)).
Proof.
  intros A B f p. induction l as [|x t IH]; intros H; [constructor|].
  cbn [map] in H. inversion H as [|? ? N1 N2]; subst. cbn [filter].
  destruct (p x); [|apply IH; exact N2]. cbn [map]. constructor; [|apply IH; exact N2].
  intros I. apply N1. apply in_map_iff in I as (y & E & Iy). apply filter_In in Iy as [Iy _].
  apply in_map_iff. exists y. auto.
Qed.

Lemma NoDup_app_one_snd : forall {A} (l : list A) x, NoDup l -> ~ In x l -> NoDup (l ++ [x]).
Proof.
  intros A. induction l as [|y t IH]; intros x N I; cbn [app].
  - constructor; [intros []|constructor].
  - inversion N as [|? ? N1 N2]; subst. constructor.
    + intros J. apply in_app_or in J as [J|[J|[]]]; [contradiction|]. subst. apply I. left. reflexivity.
    + apply IH; [exact N2|]. intros J. apply I. right. exact J.
Qed.

(* sendNewL1MSICommand / sendNewL3MSICommand *)
Lemma msi_send_ok : forall k key, cmds_ok k -> key_aligned key ->
  cmds_ok (fst (msi_send k key)) /\ k_states (fst (msi_send k key)) = k_states k.
Proof.
  intros k key (N1 & B & N2 & A) KA. unfold msi_send.
  destruct (pget ck_eqb key (k_cmds k)) as [cid|] eqn:E; cbn [fst].
  - split; [repeat split; assumption | reflexivity].
  - split; [|reflexivity]. unfold cmds_ok. cbn [set_cmds k_cmds k_next].
    rewrite !map_app. cbn [map fst snd].
    split; [|split; [|split]].
    + apply NoDup_app_one_snd; [exact N1|]. intros I. apply in_map_iff in I as ([k0 c0] & E0 & I0).
      cbn [snd] in E0. subst c0. apply B in I0. lia.
    + intros key0 cid0 I. apply in_app_or in I as [I|[I|[]]].
      * apply B in I. lia.
      * inversion I; subst. lia.
    + apply NoDup_app_one_snd; [exact N2|]. apply pget_ck_none. exact E.
    + intros key0 cid0 I. apply in_app_or in I as [I|[I|[]]].
      * eapply A; eauto.
      * inversion I; subst. exact KA.
Qed.

(* msiCommandInfo.done() *)
Lemma cmd_done_ok : forall k key cid, cmds_ok k -> cmds_ok (cmd_done k key cid) /\ keys_le k (cmd_done k key cid).
Proof.
  intros k key cid (N1 & B & N2 & A). unfold cmd_done. cbv zeta.
  match goal with |- context [if ?b then ?t else k] => set (k1 := if b then t else k) end.
  assert (E1 : k_cmds k1 = k_cmds k) by (unfold k1; destruct (_ || _); reflexivity).
  assert (E2 : k_next k1 = k_next k) by (unfold k1; destruct (_ || _); reflexivity).
  assert (L : keys_le k k1) by (unfold k1; destruct (_ || _); [apply keys_le_pset | apply keys_le_refl]).
  split.
  - unfold cmds_ok. cbn [set_cmds k_cmds k_next]. rewrite E1, E2. unfold pdel.
    split; [apply NoDup_map_filter; exact N1|]. split; [|split; [apply NoDup_map_filter; exact N2|]].
    + intros key0 cid0 I. apply filter_In in I as [I _]. eapply B; eauto.
    + intros key0 cid0 I. apply filter_In in I as [I _]. eapply A; eauto.
  - intros key0 H. cbn [set_cmds k_states]. apply L. exact H.
Qed.

Lemma sem_put_cmds : forall k a s, k_cmds (sem_put k a s) = k_cmds k /\ k_next (sem_put k a s) = k_next k /\ k_states (sem_put k a s) = k_states k.
Proof. intros. repeat split. Qed.

Lemma sem_put_ok : forall k a s, cmds_ok k -> cmds_ok (sem_put k a s).
Proof. intros k a s H. apply (cmds_ok_same k); [reflexivity | reflexivity | exact H]. Qed.

Lemma l3_setlock_ok : forall k a b, cmds_ok k -> cmds_ok (l3_setlock k a b).
Proof. intros k a b H. apply (cmds_ok_same k); [reflexivity | reflexivity | exact H]. Qed.

Lemma l3_setlock_states : forall k a b, k_states (l3_setlock k a b) = k_states k.
Proof. reflexivity. Qed.

Lemma l3_unlock_ok : forall k a k', l3_unlock k a = Ok k' -> cmds_ok k -> cmds_ok k' /\ k_states k' = k_states k.
Proof.
  intros k a k' H C. unfold l3_unlock in H. destruct (l3_locked k a); [|discriminate].
  inversion H; subst. split; [apply l3_setlock_ok; exact C | reflexivity].
Qed.

(* l1ReadRequest / l1WriteRequest / l1InvalidationRequest *)
Lemma msi_requests_ok : forall sts k id a b k' r, msi_requests sts k id a b = (k', r) ->
  l1_align a = a -> cmds_ok k -> cmds_ok k' /\ k_states k' = k_states k.
Proof.
  induction sts as [|[[eid ea] st] t IH]; intros k id a b k' r H A C; cbn [msi_requests] in H.
  - inversion H; subst. split; [exact C | reflexivity].
  - destruct ((eid =? id) || negb (ea =? a)); [eapply IH; eauto|].
    destruct (st =? st_modified).
    + destruct (msi_send k (mk_ck eid a rq_l1WriteBack)) as [k1 cid] eqn:ES.
      destruct (msi_requests t k1 id a b) as [k2 r2] eqn:ER. inversion H; subst.
      pose proof (msi_send_ok k (mk_ck eid a rq_l1WriteBack) C) as MS. rewrite ES in MS. cbn [fst] in MS.
      destruct (MS A) as [C1 S1]. destruct (IH _ _ _ _ _ _ ER A C1) as [C2 S2].
      split; [exact C2 | congruence].
    + destruct ((st =? st_shared) && b); [|eapply IH; eauto].
      destruct (msi_send k (mk_ck eid a rq_l1Evict)) as [k1 cid] eqn:ES.
      destruct (msi_requests t k1 id a b) as [k2 r2] eqn:ER. inversion H; subst.
      pose proof (msi_send_ok k (mk_ck eid a rq_l1Evict) C) as MS. rewrite ES in MS. cbn [fst] in MS.
      destruct (MS A) as [C1 S1]. destruct (IH _ _ _ _ _ _ ER A C1) as [C2 S2].
      split; [exact C2 | congruence].
Qed.

Lemma run_post_ok : forall k id p k', run_post k id p = Ok k' -> cmds_ok k -> cmds_ok k' /\ keys_le k k'.
Proof.
  intros k id p k' H C. unfold run_post in H. cbv zeta in H.
  apply bind_ok in H as (s & _ & H). inversion H; subst.
  destruct (p_set p) as [st|].
  - split; [apply (cmds_ok_same k); [reflexivity | reflexivity | exact C]|].
    intros key0 H0. cbn [sem_put set_sems k_states set_states]. apply pset_zz_keeps. exact H0.
  - split; [apply sem_put_ok; exact C | apply keys_le_same; reflexivity].
Qed.

Lemma msi_l1rlock_ok : forall k id a k' o, msi_l1rlock k id a = Ok (k', o) ->
  l1_align a = a -> cmds_ok k -> cmds_ok k' /\ k_states k' = k_states k.
Proof.
  intros k id a k' o H A C. unfold msi_l1rlock in H. cbv zeta in H.
  destruct (_ =? st_invalid).
  - destruct (sem_rlock _) as [s|]; [|inversion H; subst; split; [exact C | reflexivity]].
    destruct (msi_requests _ _ _ _ _) as [k2 pend] eqn:ER. inversion H; subst.
    destruct (msi_requests_ok _ _ _ _ _ _ _ ER A (sem_put_ok _ _ _ C)) as [C2 S2]. split; [exact C2 | exact S2].
  - destruct (_ =? st_modified).
    + destruct (sem_lock _); inversion H; subst; split; try exact C; try (apply sem_put_ok; exact C); reflexivity.
    + destruct (_ =? st_shared); [|discriminate].
      destruct (sem_rlock _); inversion H; subst; split; try exact C; try (apply sem_put_ok; exact C); reflexivity.
Qed.

Lemma msi_l1lock_ok : forall k id a k' o, msi_l1lock k id a = Ok (k', o) ->
  l1_align a = a -> cmds_ok k -> cmds_ok k' /\ k_states k' = k_states k.
Proof.
  intros k id a k' o H A C. unfold msi_l1lock in H. cbv zeta in H.
  destruct (_ =? st_invalid).
  - destruct (sem_lock _) as [s|]; [|inversion H; subst; split; [exact C | reflexivity]].
    destruct (msi_requests _ _ _ _ _) as [k2 pend] eqn:ER. inversion H; subst.
    destruct (msi_requests_ok _ _ _ _ _ _ _ ER A (sem_put_ok _ _ _ C)) as [C2 S2]. split; [exact C2 | exact S2].
  - destruct (_ =? st_modified).
    + destruct (sem_lock _); inversion H; subst; split; try exact C; try (apply sem_put_ok; exact C); reflexivity.
    + destruct (_ =? st_shared); [|discriminate].
      destruct (sem_lock _) as [s|]; [|inversion H; subst; split; [exact C | reflexivity]].
      destruct (msi_requests _ _ _ _ _) as [k2 pend] eqn:ER. inversion H; subst.
      destruct (msi_requests_ok _ _ _ _ _ _ _ ER A (sem_put_ok _ _ _ C)) as [C2 S2]. split; [exact C2 | exact S2].
Qed.

Lemma msi_evict_l1_ok : forall k id a e, msi_evict_l1 k id a = Ok e ->
  l1_align a = a -> cmds_ok k -> cmds_ok (fst e) /\ k_states (fst e) = k_states k.
Proof.
  intros k id a e H A C. unfold msi_evict_l1 in H. cbv zeta in H.
  destruct (_ || _); [inversion H; subst; apply msi_send_ok; [exact C | exact A]|].
  destruct (_ =? st_modified); [|discriminate]. inversion H; subst. apply msi_send_ok; [exact C | exact A].
Qed.

Lemma msi_evict_l3_ok : forall k id a, l3_align a = a -> cmds_ok k ->
  cmds_ok (fst (msi_evict_l3 k id a)) /\ k_states (fst (msi_evict_l3 k id a)) = k_states k.
Proof.
  intros k id a A C. unfold msi_evict_l3.
  destruct (aget a (k_l3write k)) as [[|]|]; apply msi_send_ok; try exact C; exact A.
Qed.

Lemma unlock_all_ok : forall addrs k b k', unlock_all k addrs b = Ok k' ->
  k_cmds k' = k_cmds k /\ k_next k' = k_next k /\ k_states k' = k_states k.
Proof.
  induction addrs as [|a t IH]; intros k b k' H; cbn [unlock_all] in H.
  - inversion H; subst. repeat split.
  - apply bind_ok in H as (s & _ & H). apply IH in H. exact H.
Qed.

(* ------------------------------------------------------------------ *)
(* 1. cc.go: helpers                                                    *)
(* ------------------------------------------------------------------ *)

Lemma mw_ok_msi : forall w k, mw_ok w -> cmds_ok k -> mw_ok (set_wmsi w k).
Proof. intros w k [A _] C. split; [exact A | exact C]. Qed.

Lemma mw_ok_l3 : forall w l3, mw_ok w -> wf_cache l3LineSize8 l3 -> mw_ok (set_wl3 w l3).
Proof. intros w l3 [_ C] A. split; [exact A | exact C]. Qed.

Lemma cc_ok_l1d : forall c l1, cc_ok c -> wf_cache l1dLineSize l1 -> cc_ok (set_l1d c l1).
Proof. intros c l1 (_ & B & C) A. split; [exact A | split; [exact B | exact C]]. Qed.

Lemma cc_ok_read : forall c s, cc_ok c -> rd_ok s -> cc_ok (set_read c s).
Proof. intros c s (A & _ & C) B. split; [exact A | split; [exact B | exact C]]. Qed.

Lemma cc_ok_write : forall c s, cc_ok c -> wr_ok s -> cc_ok (set_write c s).
Proof. intros c s (A & B & _) C. split; [exact A | split; [exact B | exact C]]. Qed.

Lemma check_len_rem : forall (ln : list Z) addr n, negb (zlen ln =? n) || negb (remS 32 addr n =? 0) = false ->
  zlen ln = n /\ Z.rem addr n = 0.
Proof.
  intros ln addr n H. apply orb_false_iff in H as [H1 H2].
  apply negb_false_iff in H1. apply negb_false_iff in H2. apply Z.eqb_eq in H1. apply Z.eqb_eq in H2.
  split; [exact H1 | exact H2].
Qed.

(* pushLineToL1 *)
Lemma cc_push_l1_ok : forall c addr ln p, cc_push_l1 c addr ln = Ok p -> cc_ok c -> addr_ok addr ->
  cc_ok (fst p) /\ c_snoop (fst p) = c_snoop c /\ (forall v, snd p = Some v -> wf_line l1dLineSize v).
Proof.
  intros c addr ln p H CC A. unfold cc_push_l1 in H.
  destruct (negb (zlen ln =? l1dLineSize) || negb (remS 32 addr l1dLineSize =? 0)) eqn:EC; [discriminate|].
  apply check_len_rem in EC as [EL ER].
  apply bind_ok in H as ([l1 o] & EG & H).
  pose proof (get_wf _ _ _ _ _ EG (proj1 CC)) as W1.
  destruct o as [v|].
  - inversion H; subst. cbn [fst snd]. split; [apply cc_ok_l1d; assumption|]. split; [reflexivity | discriminate].
  - apply bind_ok in H as ([l2 o2] & EP & H). inversion H; subst. cbn [fst snd].
    assert (NL : wf_line l1dLineSize (new_line l1 addr ln)).
    { apply new_line_wf; try assumption; [exact (proj1 W1) | unfold l1dLineSize; lia]. }
    destruct (push_line_warn_wf _ _ _ _ _ _ EP W1 NL) as [W2 V].
    split; [apply cc_ok_l1d; assumption|]. split; [reflexivity | exact V].
Qed.

(* pushLineToL3 *)
Lemma cc_push_l3_ok : forall w addr ln p, cc_push_l3 w addr ln = Ok p -> mw_ok w -> addr_ok addr ->
  mw_ok (fst p) /\ w_msi (fst p) = w_msi w /\ (forall v, snd p = Some v -> wf_line l3LineSize8 v).
Proof.
  intros w addr ln p H MW A. unfold cc_push_l3 in H.
  destruct (negb (zlen ln =? l3LineSize8) || negb (remS 32 addr l3LineSize8 =? 0)) eqn:EC; [discriminate|].
  apply check_len_rem in EC as [EL ER].
  apply bind_ok in H as ([l3 o] & EG & H).
  pose proof (get_wf _ _ _ _ _ EG (proj1 MW)) as W1.
  destruct o as [v|].
  - inversion H; subst. cbn [fst snd]. split; [apply mw_ok_l3; assumption|]. split; [reflexivity | discriminate].
  - apply bind_ok in H as ([l2 o2] & EP & H). inversion H; subst. cbn [fst snd].
    assert (NL : wf_line l3LineSize8 (new_line l3 addr ln)).
    { apply new_line_wf; try assumption; [exact (proj1 W1) | unfold l3LineSize8; lia]. }
    destruct (push_line_warn_wf _ _ _ _ _ _ EP W1 NL) as [W2 V].
    split; [apply mw_ok_l3; assumption|]. split; [reflexivity | exact V].
Qed.

(* writeToL3 *)
Lemma cc_write_l3_ok : forall w l1a d w', cc_write_l3 w l1a d = Ok w' -> mw_ok w ->
  mw_ok w' /\ k_states (w_msi w') = k_states (w_msi w).
Proof.
  intros w l1a d w' H [A C]. unfold cc_write_l3 in H. cbv zeta in H.
  apply bind_ok in H as (c & E & H). inversion H; subst. cbn [w_msi].
  split; [|reflexivity]. split; [eapply write_wf; eauto|].
  apply (cmds_ok_same (w_msi w)); [reflexivity | reflexivity | exact C].
Qed.

(* cacheController.flush() *)
Lemma cc_flush_inv : forall k c k' c', cc_flush k c = Ok (k', c') -> cmds_ok k -> cc_ok c ->
  cmds_ok k' /\ keys_le k k' /\ cc_ok c' /\ c_snoop c' = c_snoop c.
Proof.
  intros k c k' c' H C CC. unfold cc_flush in H.
  apply bind_ok in H as (k1 & E1 & H). apply bind_ok in H as (k2 & E2 & H). inversion H; subst.
  apply unlock_all_ok in E1 as (A1 & B1 & S1). apply unlock_all_ok in E2 as (A2 & B2 & S2).
  split; [apply (cmds_ok_same k); [congruence | congruence | exact C]|].
  split; [apply keys_le_same; congruence|].
  split; [|reflexivity]. split; [exact (proj1 CC) | split; exact I].
Qed.

(* what a function of the read / write side does to the shared part and to its controller *)
Definition step_ok (w : mw) (c : cc8) (w' : mw) (c' : cc8) : Prop :=
  mw_ok w' /\ cc_ok c' /\ keys_le (w_msi w) (w_msi w') /\ c_snoop c' = c_snoop c.

Lemma step_ok_chain : forall w c w1 c1 w' c', step_ok w1 c1 w' c' ->
  keys_le (w_msi w) (w_msi w1) -> c_snoop c1 = c_snoop c -> step_ok w c w' c'.
Proof.
  intros w c w1 c1 w' c' (A & B & K & S) K1 S1.
  split; [exact A|]. split; [exact B|]. split; [eapply keys_le_trans; eauto | congruence].
Qed.

(* ------------------------------------------------------------------ *)
(* 1. cc.go: coRead                                                     *)
(* ------------------------------------------------------------------ *)

Lemma rd_stay_ok : forall w c s w' c' r, rd_stay w c s = Ok (w', c', r) -> mw_ok w -> cc_ok c -> rd_ok s ->
  step_ok w c w' c'.
Proof.
  intros w c s w' c' r H MW CC RS. unfold rd_stay in H. inversion H; subst.
  split; [exact MW|]. split; [apply cc_ok_read; assumption|]. split; [apply keys_le_refl | reflexivity].
Qed.

Lemma rd_fin_ok : forall w c addrs data w' c' r, rd_fin w c addrs data = Ok (w', c', r) -> mw_ok w -> cc_ok c ->
  step_ok w c w' c'.
Proof.
  intros w c addrs data w' c' r H MW CC. unfold rd_fin in H.
  destruct (c_post c) as [p|]; [|discriminate].
  apply bind_ok in H as (k & EK & H). apply bind_ok in H as (a0 & _ & H). inversion H; subst.
  destruct (run_post_ok _ _ _ _ EK (proj2 MW)) as [C K].
  split; [apply mw_ok_msi; assumption|].
  split; [split; [exact (proj1 CC) | split; [exact I | exact (proj2 (proj2 CC))]]|].
  split; [exact K | reflexivity].
Qed.

Lemma rd_l1wait_ok : forall w c addrs rem data w' c' r,
  rd_l1wait w c addrs rem data = Ok (w', c', r) -> mw_ok w -> cc_ok c -> step_ok w c w' c'.
Proof.
  intros w c addrs rem data w' c' r H MW CC. unfold rd_l1wait in H.
  destruct (0 <? rem); [eapply rd_stay_ok; eauto; exact I | eapply rd_fin_ok; eauto].
Qed.

Lemma rd_from_l1_ok : forall w c addrs w' c' r, rd_from_l1 w c addrs = Ok (w', c', r) -> mw_ok w -> cc_ok c ->
  step_ok w c w' c'.
Proof.
  intros w c addrs w' c' r H MW CC. unfold rd_from_l1 in H.
  apply bind_ok in H as ([l1 [data|]] & EG & H); [|discriminate].
  pose proof (get_all_wf _ _ _ _ _ _ EG (proj1 CC)) as W1.
  eapply step_ok_chain; [eapply rd_l1wait_ok; [exact H | exact MW | apply cc_ok_l1d; assumption] | apply keys_le_refl | reflexivity].
Qed.

Lemma rd_evict_wait_ok : forall w c addrs cmd w' c' r,
  rd_evict_wait w c addrs cmd = Ok (w', c', r) -> mw_ok w -> cc_ok c -> step_ok w c w' c'.
Proof.
  intros w c addrs cmd w' c' r H MW CC. unfold rd_evict_wait in H.
  destruct (cmd_isdone _ _); [eapply rd_from_l1_ok; eauto | eapply rd_stay_ok; eauto; exact I].
Qed.

Lemma rd_push_l1_ok : forall w c addrs l1a l1dt w' c' r,
  rd_push_l1 w c addrs l1a l1dt = Ok (w', c', r) -> mw_ok w -> cc_ok c -> addr_ok l1a -> step_ok w c w' c'.
Proof.
  intros w c addrs l1a l1dt w' c' r H MW CC A. unfold rd_push_l1 in H.
  apply bind_ok in H as (p & EP & H). destruct (cc_push_l1_ok _ _ _ _ EP CC A) as (CC1 & S1 & V).
  destruct (snd p) as [victim|].
  - apply bind_ok in H as (e & EE & H).
    destruct (msi_evict_l1_ok _ _ _ _ EE (wf_line_lo64 _ (V _ eq_refl)) (proj2 MW)) as [C1 K1].
    eapply step_ok_chain; [eapply rd_stay_ok; [exact H | apply mw_ok_msi; assumption | exact CC1 | exact I]
                          | apply keys_le_same; exact K1 | exact S1].
  - eapply step_ok_chain; [eapply rd_from_l1_ok; [exact H | exact MW | exact CC1] | apply keys_le_refl | exact S1].
Qed.

Lemma rd_sync_ok : forall w c addrs w' c' r, rd_sync w c addrs = Ok (w', c', r) -> mw_ok w -> cc_ok c ->
  step_ok w c w' c'.
Proof.
  intros w c addrs w' c' r H MW CC. unfold rd_sync in H.
  apply bind_ok in H as (s & ES & H). destruct s as [[l1a l1dt]|]; [|discriminate].
  eapply rd_push_l1_ok; eauto. eapply get_sub_addr; [exact ES | exact (proj1 MW)].
Qed.

Lemma rd_l3push_ok : forall w c addrs rem l3a l3d w' c' r,
  rd_l3push w c addrs rem l3a l3d = Ok (w', c', r) -> mw_ok w -> cc_ok c -> addr_ok l3a -> step_ok w c w' c'.
Proof.
  intros w c addrs rem l3a l3d w' c' r H MW CC A. unfold rd_l3push in H.
  destruct (0 <? rem); [eapply rd_stay_ok; eauto|].
  apply bind_ok in H as (p & EP & H). apply bind_ok in H as (a0 & _ & H). apply bind_ok in H as (k & EU & H).
  destruct (cc_push_l3_ok _ _ _ _ EP MW A) as (MW1 & M1 & V).
  destruct (l3_unlock_ok _ _ _ EU (proj2 MW1)) as [C2 S2].
  cbv zeta in H.
  match type of H with rd_sync (set_wmsi _ ?kk) _ _ = _ => assert (KK : cmds_ok kk /\ k_states kk = k_states k) end.
  { destruct (snd p) as [victim|]; [|split; [exact C2 | reflexivity]].
    apply msi_evict_l3_ok; [apply wf_line_lo128; apply V; reflexivity | exact C2]. }
  destruct KK as [C3 S3].
  eapply step_ok_chain; [eapply rd_sync_ok; [exact H | apply mw_ok_msi; assumption | exact CC] | | reflexivity].
  apply keys_le_same. cbn [set_wmsi w_msi]. congruence.
Qed.

Lemma rd_l3lock_ok : forall w c addrs l3a l3d w' c' r,
  rd_l3lock w c addrs l3a l3d = Ok (w', c', r) -> mw_ok w -> cc_ok c -> addr_ok l3a -> step_ok w c w' c'.
Proof.
  intros w c addrs l3a l3d w' c' r H MW CC A. unfold rd_l3lock in H.
  apply bind_ok in H as (a0 & _ & H).
  destruct (l3_locked _ _); [eapply rd_stay_ok; eauto|].
  eapply step_ok_chain; [eapply rd_l3push_ok; [exact H | apply mw_ok_msi; [exact MW | apply l3_setlock_ok; exact (proj2 MW)] | exact CC | exact A]
                        | apply keys_le_same; reflexivity | reflexivity].
Qed.

Lemma rd_memwait_ok : forall w c addrs rem l3a l3d w' c' r,
  rd_memwait w c addrs rem l3a l3d = Ok (w', c', r) -> mw_ok w -> cc_ok c -> addr_ok l3a -> step_ok w c w' c'.
Proof.
  intros w c addrs rem l3a l3d w' c' r H MW CC A. unfold rd_memwait in H.
  destruct (0 <? rem); [eapply rd_stay_ok; eauto | eapply rd_l3lock_ok; eauto].
Qed.

Lemma rd_l3wait_ok : forall w c addrs rem w' c' r,
  rd_l3wait w c addrs rem = Ok (w', c', r) -> mw_ok w -> cc_ok c -> step_ok w c w' c'.
Proof.
  intros w c addrs rem w' c' r H MW CC. unfold rd_l3wait in H.
  destruct (0 <? rem); [eapply rd_stay_ok; eauto; exact I|].
  apply bind_ok in H as (a0 & _ & H). apply bind_ok in H as ([l3 o] & EG & H).
  pose proof (get_wf _ _ _ _ _ EG (proj1 MW)) as W1.
  destruct o as [v|].
  - apply bind_ok in H as (s & ES & H). destruct s as [[l1a l1dt]|]; [|discriminate].
    eapply step_ok_chain; [eapply rd_push_l1_ok; [exact H | apply mw_ok_l3; assumption | exact CC | eapply get_sub_addr; [exact ES | exact W1]]
                          | apply keys_le_refl | reflexivity].
  - apply bind_ok in H as (f & EF & H).
    eapply step_ok_chain; [eapply rd_memwait_ok; [exact H | apply mw_ok_l3; assumption | exact CC | eapply fetch_line8_addr; exact EF]
                          | apply keys_le_refl | reflexivity].
Qed.

Lemma rd_pend_ok : forall w c addrs rk pend w' c' r,
  rd_pend w c addrs rk pend = Ok (w', c', r) -> mw_ok w -> cc_ok c -> step_ok w c w' c'.
Proof.
  intros w c addrs rk pend w' c' r H MW CC. unfold rd_pend in H.
  destruct (negb _); [eapply rd_stay_ok; eauto; exact I|].
  destruct rk; [| eapply rd_from_l1_ok; eauto | discriminate].
  apply bind_ok in H as (a0 & _ & H). apply bind_ok in H as (g & _ & H).
  destruct g; [discriminate|]. eapply rd_l3wait_ok; eauto.
Qed.

Lemma rd_start_ok : forall w c addrs w' c' r, rd_start w c addrs = Ok (w', c', r) -> mw_ok w -> cc_ok c ->
  step_ok w c w' c'.
Proof.
  intros w c addrs w' c' r H MW CC. unfold rd_start in H.
  apply bind_ok in H as (a0 & _ & H). cbv zeta in H. apply bind_ok in H as ([k1 o] & EL & H). cbn [fst snd] in H.
  destruct (msi_l1rlock_ok _ _ _ _ _ EL (align8_idem64 a0) (proj2 MW)) as [C1 S1].
  destruct o as [[[rk pend] p]|].
  - eapply step_ok_chain; [eapply rd_pend_ok; [exact H | apply mw_ok_msi; assumption |] | apply keys_le_same; exact S1 | reflexivity].
    split; [exact (proj1 CC) | split; [exact (proj1 (proj2 CC)) | exact (proj2 (proj2 CC))]].
  - inversion H; subst. split; [apply mw_ok_msi; assumption|]. split; [exact CC|].
    split; [apply keys_le_same; exact S1 | reflexivity].
Qed.

Lemma cc_read_cycle_ok : forall w c addrs w' c' r, cc_read_cycle w c addrs = Ok (w', c', r) -> mw_ok w -> cc_ok c ->
  mw_ok w' /\ cc_ok c' /\ keys_le (w_msi w) (w_msi w') /\ c_snoop c' = c_snoop c.
Proof.
  intros w c addrs w' c' r H MW CC. unfold cc_read_cycle in H.
  pose proof (proj1 (proj2 CC)) as RO.
  destruct (c_read c); cbn [rd_ok] in RO.
  - eapply rd_start_ok; eauto.
  - eapply rd_pend_ok; eauto.
  - eapply rd_l3wait_ok; eauto.
  - eapply rd_evict_wait_ok; eauto.
  - eapply rd_memwait_ok; eauto.
  - eapply rd_l3lock_ok; eauto.
  - eapply rd_l3push_ok; eauto.
  - eapply rd_l1wait_ok; eauto.
Qed.

(* ------------------------------------------------------------------ *)
(* 1. cc.go: coWrite                                                    *)
(* ------------------------------------------------------------------ *)

Lemma wr_stay_ok : forall w c s w' c' r, wr_stay w c s = Ok (w', c', r) -> mw_ok w -> cc_ok c -> wr_ok s ->
  step_ok w c w' c'.
Proof.
  intros w c s w' c' r H MW CC RS. unfold wr_stay in H. inversion H; subst.
  split; [exact MW|]. split; [apply cc_ok_write; assumption|]. split; [apply keys_le_refl | reflexivity].
Qed.

Lemma wr_fin_ok : forall w c addrs data w' c' r, wr_fin w c addrs data = Ok (w', c', r) -> mw_ok w -> cc_ok c ->
  step_ok w c w' c'.
Proof.
  intros w c addrs data w' c' r H MW CC. unfold wr_fin in H.
  apply bind_ok in H as (a0 & _ & H). apply bind_ok in H as (l1 & EW & H).
  destruct (c_post c) as [p|]; [|discriminate].
  apply bind_ok in H as (k & EK & H). inversion H; subst.
  destruct (run_post_ok _ _ _ _ EK (proj2 MW)) as [C K].
  split; [apply mw_ok_msi; assumption|].
  split; [split; [eapply write_wf; [exact EW | exact (proj1 CC)] | split; [exact (proj1 (proj2 CC)) | exact I]]|].
  split; [exact K | reflexivity].
Qed.

Lemma wr_final_ok : forall w c addrs data rem w' c' r,
  wr_final w c addrs data rem = Ok (w', c', r) -> mw_ok w -> cc_ok c -> step_ok w c w' c'.
Proof.
  intros w c addrs data rem w' c' r H MW CC. unfold wr_final in H.
  destruct (0 <? rem); [eapply wr_stay_ok; eauto; exact I | eapply wr_fin_ok; eauto].
Qed.

Lemma wr_to_l1_ok : forall w c addrs data w' c' r, wr_to_l1 w c addrs data = Ok (w', c', r) -> mw_ok w -> cc_ok c ->
  step_ok w c w' c'.
Proof. intros w c addrs data w' c' r H MW CC. unfold wr_to_l1 in H. eapply wr_final_ok; eauto. Qed.

Lemma wr_to_l1_after_ok : forall w c addrs data rem w' c' r,
  wr_to_l1_after w c addrs data rem = Ok (w', c', r) -> mw_ok w -> cc_ok c -> step_ok w c w' c'.
Proof.
  intros w c addrs data rem w' c' r H MW CC. unfold wr_to_l1_after in H.
  destruct (0 <? rem); [eapply wr_stay_ok; eauto; exact I | eapply wr_to_l1_ok; eauto].
Qed.

Lemma wr_evict_wait_ok : forall w c addrs data cmd w' c' r,
  wr_evict_wait w c addrs data cmd = Ok (w', c', r) -> mw_ok w -> cc_ok c -> step_ok w c w' c'.
Proof.
  intros w c addrs data cmd w' c' r H MW CC. unfold wr_evict_wait in H.
  destruct (cmd_isdone _ _); [eapply wr_to_l1_after_ok; eauto | eapply wr_stay_ok; eauto; exact I].
Qed.

Lemma wr_push_l1_ok : forall w c addrs data l1a l1dt w' c' r,
  wr_push_l1 w c addrs data l1a l1dt = Ok (w', c', r) -> mw_ok w -> cc_ok c -> addr_ok l1a -> step_ok w c w' c'.
Proof.
  intros w c addrs data l1a l1dt w' c' r H MW CC A. unfold wr_push_l1 in H.
  apply bind_ok in H as (p & EP & H). destruct (cc_push_l1_ok _ _ _ _ EP CC A) as (CC1 & S1 & V).
  destruct (snd p) as [victim|].
  - apply bind_ok in H as (e & EE & H).
    destruct (msi_evict_l1_ok _ _ _ _ EE (wf_line_lo64 _ (V _ eq_refl)) (proj2 MW)) as [C1 K1].
    eapply step_ok_chain; [eapply wr_stay_ok; [exact H | apply mw_ok_msi; assumption | exact CC1 | exact I]
                          | apply keys_le_same; exact K1 | exact S1].
  - eapply step_ok_chain; [eapply wr_to_l1_ok; [exact H | exact MW | exact CC1] | apply keys_le_refl | exact S1].
Qed.

Lemma wr_l1push_ok : forall w c addrs data rem l1a l1dt w' c' r,
  wr_l1push w c addrs data rem l1a l1dt = Ok (w', c', r) -> mw_ok w -> cc_ok c -> addr_ok l1a -> step_ok w c w' c'.
Proof.
  intros w c addrs data rem l1a l1dt w' c' r H MW CC A. unfold wr_l1push in H.
  destruct (0 <? rem); [eapply wr_stay_ok; eauto | eapply wr_push_l1_ok; eauto].
Qed.

Lemma wr_sync_ok : forall w c addrs data w' c' r, wr_sync w c addrs data = Ok (w', c', r) -> mw_ok w -> cc_ok c ->
  step_ok w c w' c'.
Proof.
  intros w c addrs data w' c' r H MW CC. unfold wr_sync in H.
  apply bind_ok in H as (s & ES & H). destruct s as [[l1a l1dt]|]; [|discriminate].
  eapply wr_push_l1_ok; eauto. eapply get_sub_addr; [exact ES | exact (proj1 MW)].
Qed.

Lemma wr_l3evict_wait_ok : forall w c addrs data cmd w' c' r,
  wr_l3evict_wait w c addrs data cmd = Ok (w', c', r) -> mw_ok w -> cc_ok c -> step_ok w c w' c'.
Proof.
  intros w c addrs data cmd w' c' r H MW CC. unfold wr_l3evict_wait in H.
  destruct (cmd_isdone _ _); [eapply wr_sync_ok; eauto | eapply wr_stay_ok; eauto; exact I].
Qed.

Lemma wr_l3wait_ok : forall w c addrs data rem l3a l3d w' c' r,
  wr_l3wait w c addrs data rem l3a l3d = Ok (w', c', r) -> mw_ok w -> cc_ok c -> addr_ok l3a -> step_ok w c w' c'.
Proof.
  intros w c addrs data rem l3a l3d w' c' r H MW CC A. unfold wr_l3wait in H.
  destruct (0 <? rem); [eapply wr_stay_ok; eauto|].
  apply bind_ok in H as (a0 & _ & H).
  destruct (l3_locked _ _); [eapply wr_stay_ok; eauto|].
  apply bind_ok in H as (p & EP & H).
  assert (MW0 : mw_ok (set_wmsi w (l3_setlock (w_msi w) a0 false))).
  { apply mw_ok_msi; [exact MW | apply l3_setlock_ok; exact (proj2 MW)]. }
  destruct (cc_push_l3_ok _ _ _ _ EP MW0 A) as (MW1 & M1 & V).
  assert (K1 : keys_le (w_msi w) (w_msi (fst p))).
  { apply keys_le_same. rewrite M1. reflexivity. }
  destruct (snd p) as [victim|].
  - cbv zeta in H.
    destruct (msi_evict_l3_ok (w_msi (fst p)) (c_id c) (lo victim) (wf_line_lo128 _ (V _ eq_refl)) (proj2 MW1)) as [C2 S2].
    eapply step_ok_chain; [eapply wr_stay_ok; [exact H | apply mw_ok_msi; assumption | exact CC | exact I] | | reflexivity].
    eapply keys_le_trans; [exact K1 | apply keys_le_same; exact S2].
  - eapply step_ok_chain; [eapply wr_sync_ok; [exact H | exact MW1 | exact CC] | exact K1 | reflexivity].
Qed.

Lemma wr_memwait_ok : forall w c addrs data rem l3a l3d w' c' r,
  wr_memwait w c addrs data rem l3a l3d = Ok (w', c', r) -> mw_ok w -> cc_ok c -> addr_ok l3a -> step_ok w c w' c'.
Proof.
  intros w c addrs data rem l3a l3d w' c' r H MW CC A. unfold wr_memwait in H.
  destruct (0 <? rem); [eapply wr_stay_ok; eauto | eapply wr_l3wait_ok; eauto].
Qed.

Lemma wr_pend_ok : forall w c addrs data rk pend w' c' r,
  wr_pend w c addrs data rk pend = Ok (w', c', r) -> mw_ok w -> cc_ok c -> step_ok w c w' c'.
Proof.
  intros w c addrs data rk pend w' c' r H MW CC. unfold wr_pend in H.
  destruct (negb _); [eapply wr_stay_ok; eauto; exact I|].
  destruct rk; [| discriminate | eapply wr_to_l1_ok; eauto].
  apply bind_ok in H as (a0 & _ & H). apply bind_ok in H as ([l3 o] & EG & H).
  pose proof (get_wf _ _ _ _ _ EG (proj1 MW)) as W1.
  destruct o as [v|].
  - apply bind_ok in H as (s & ES & H). destruct s as [[l1a l1dt]|]; [|discriminate].
    eapply step_ok_chain; [eapply wr_l1push_ok; [exact H | apply mw_ok_l3; assumption | exact CC | eapply get_sub_addr; [exact ES | exact W1]]
                          | apply keys_le_refl | reflexivity].
  - apply bind_ok in H as (f & EF & H).
    eapply step_ok_chain; [eapply wr_memwait_ok; [exact H | apply mw_ok_l3; assumption | exact CC | eapply fetch_line8_addr; exact EF]
                          | apply keys_le_refl | reflexivity].
Qed.

Lemma wr_start_ok : forall w c addrs data w' c' r, wr_start w c addrs data = Ok (w', c', r) -> mw_ok w -> cc_ok c ->
  step_ok w c w' c'.
Proof.
  intros w c addrs data w' c' r H MW CC. unfold wr_start in H.
  apply bind_ok in H as (a0 & _ & H). cbv zeta in H. apply bind_ok in H as ([k1 o] & EL & H). cbn [fst snd] in H.
  destruct (msi_l1lock_ok _ _ _ _ _ EL (align8_idem64 a0) (proj2 MW)) as [C1 S1].
  destruct o as [[[rk pend] p]|].
  - eapply step_ok_chain; [eapply wr_pend_ok; [exact H | apply mw_ok_msi; assumption |] | apply keys_le_same; exact S1 | reflexivity].
    split; [exact (proj1 CC) | split; [exact (proj1 (proj2 CC)) | exact (proj2 (proj2 CC))]].
  - inversion H; subst. split; [apply mw_ok_msi; assumption|]. split; [exact CC|].
    split; [apply keys_le_same; exact S1 | reflexivity].
Qed.

Lemma cc_write_cycle_ok : forall w c addrs data w' c' r, cc_write_cycle w c addrs data = Ok (w', c', r) ->
  mw_ok w -> cc_ok c -> mw_ok w' /\ cc_ok c' /\ keys_le (w_msi w) (w_msi w') /\ c_snoop c' = c_snoop c.
Proof.
  intros w c addrs data w' c' r H MW CC. unfold cc_write_cycle in H.
  pose proof (proj2 (proj2 CC)) as RO.
  destruct (c_write c); cbn [wr_ok] in RO.
  - eapply wr_start_ok; eauto.
  - eapply wr_pend_ok; eauto.
  - eapply wr_l1push_ok; eauto.
  - eapply wr_evict_wait_ok; eauto.
  - eapply wr_to_l1_after_ok; eauto.
  - eapply wr_memwait_ok; eauto.
  - eapply wr_l3wait_ok; eauto.
  - eapply wr_l3evict_wait_ok; eauto.
  - eapply wr_final_ok; eauto.
Qed.

(* ------------------------------------------------------------------ *)
(* 2. cc.go: coSnoop                                                    *)
(* ------------------------------------------------------------------ *)

Lemma done_chain_ok : forall k l a b key cid, cmds_ok k ->
  cmds_ok (l3_setlock (cmd_done (set_l3write k l) key cid) a b) /\
  keys_le k (l3_setlock (cmd_done (set_l3write k l) key cid) a b).
Proof.
  intros k l a b key cid C.
  assert (C0 : cmds_ok (set_l3write k l)) by (apply (cmds_ok_same k); [reflexivity | reflexivity | exact C]).
  destruct (cmd_done_ok (set_l3write k l) key cid C0) as [C1 K1].
  split; [apply l3_setlock_ok; exact C1|].
  intros key0 H0. rewrite l3_setlock_states. apply K1. exact H0.
Qed.

Ltac stay_tac := let s' := fresh "s'" in let E := fresh "E" in
  intros s' E; inversion E; subst; cbn [sn_key sn_cid sn_isl1 sn_kind_ok]; repeat split; auto.

Lemma sn_step_inv : forall w c s w' c' o, sn_step w c s = Ok (w', c', o) -> mw_ok w -> cc_ok c ->
  mw_ok w' /\ cc_ok c' /\ keys_le (w_msi w) (w_msi w') /\ c_snoop c' = c_snoop c /\
  (forall s', o = Some s' -> sn_key s' = sn_key s /\ sn_cid s' = sn_cid s /\ sn_isl1 s' = sn_isl1 s /\ (sn_kind_ok s -> sn_kind_ok s')).
Proof.
  intros w c s w' c' o H MW CC.
  destruct s as [key cid|key cid|key cid c1 c2 c3|key cid n]; unfold sn_step in H; cbv zeta in H.
  - (* l1Evict *)
    apply bind_ok in H as ([l1 ov] & EE & H). inversion H; subst. cbn [fst].
    destruct (cmd_done_ok (w_msi w) key cid (proj2 MW)) as [C K].
    split; [apply mw_ok_msi; assumption|].
    split; [apply cc_ok_l1d; [exact CC | eapply evict_wf; [exact EE | exact (proj1 CC)]]|].
    split; [exact K|]. split; [reflexivity | discriminate].
  - (* l3Evict *)
    destruct (negb (l3_locked _ _)).
    + inversion H; subst.
      split; [apply mw_ok_msi; [exact MW | apply l3_setlock_ok; exact (proj2 MW)]|]. split; [exact CC|].
      split; [apply keys_le_same; reflexivity|]. split; [reflexivity | stay_tac].
    + apply bind_ok in H as ([l3 ov] & EE & H). inversion H; subst. cbn [fst].
      destruct (done_chain_ok (w_msi w) (aset (ck_addr key) false (k_l3write (w_msi w))) (ck_addr key) false key cid (proj2 MW)) as [C K].
      split; [split; [eapply evict_wf; [exact EE | exact (proj1 MW)] | exact C]|]. split; [exact CC|].
      split; [exact K|]. split; [reflexivity | discriminate].
  - (* l1WriteBack *)
    destruct (0 <? c1).
    { inversion H; subst. split; [exact MW|]. split; [exact CC|]. split; [apply keys_le_refl|]. split; [reflexivity | stay_tac]. }
    apply bind_ok in H as (g & _ & H). destruct g as [memory|]; [|discriminate].
    apply bind_ok in H as ([l3 o3] & EG & H).
    pose proof (get_wf _ _ _ _ _ EG (proj1 MW)) as W3.
    destruct o3 as [v|].
    + destruct (0 <? c3).
      { inversion H; subst. split; [apply mw_ok_l3; assumption|]. split; [exact CC|]. split; [apply keys_le_refl|].
        split; [reflexivity | stay_tac]. }
      apply bind_ok in H as (w1 & EW & H). apply bind_ok in H as ([l1 ov] & EE & H). cbn [fst snd] in H.
      destruct ov; [|discriminate]. inversion H; subst.
      destruct (cc_write_l3_ok _ _ _ _ EW (mw_ok_l3 _ _ MW W3)) as [MW1 S1].
      destruct (cmd_done_ok (w_msi w1) key cid (proj2 MW1)) as [C K].
      split; [apply mw_ok_msi; assumption|].
      split; [apply cc_ok_l1d; [exact CC | eapply evict_wf; [exact EE | exact (proj1 CC)]]|].
      split; [|split; [reflexivity | discriminate]].
      eapply keys_le_trans; [|exact K]. apply keys_le_same. exact S1.
    + destruct (0 <? c2).
      { inversion H; subst. split; [apply mw_ok_l3; assumption|]. split; [exact CC|]. split; [apply keys_le_refl|].
        split; [reflexivity | stay_tac]. }
      apply bind_ok in H as (mem & _ & H). apply bind_ok in H as ([l1 ov] & EE & H). cbn [fst snd] in H.
      destruct ov; [|discriminate]. inversion H; subst.
      destruct (cmd_done_ok (w_msi w) key cid (proj2 MW)) as [C K].
      split; [split; [exact W3 | exact C]|].
      split; [apply cc_ok_l1d; [exact CC | eapply evict_wf; [exact EE | exact (proj1 CC)]]|].
      split; [exact K|]. split; [reflexivity | discriminate].
  - (* l3WriteBack *)
    destruct (0 <? n).
    { inversion H; subst. split; [exact MW|]. split; [exact CC|]. split; [apply keys_le_refl|]. split; [reflexivity | stay_tac]. }
    destruct (negb (l3_locked _ _)).
    { inversion H; subst.
      split; [apply mw_ok_msi; [exact MW | apply l3_setlock_ok; exact (proj2 MW)]|]. split; [exact CC|].
      split; [apply keys_le_same; reflexivity|]. split; [reflexivity | stay_tac]. }
    apply bind_ok in H as (g & _ & H). destruct g as [memory|]; [|discriminate].
    apply bind_ok in H as (mem & _ & H). apply bind_ok in H as ([l3 ov] & EE & H). cbn [fst snd] in H.
    destruct ov; [|discriminate]. inversion H; subst.
    destruct (done_chain_ok (w_msi w) (aset (ck_addr key) false (k_l3write (w_msi w))) (ck_addr key) false key cid (proj2 MW)) as [C K].
    split; [split; [eapply evict_wf; [exact EE | exact (proj1 MW)] | exact C]|]. split; [exact CC|].
    split; [exact K|]. split; [reflexivity | discriminate].
Qed.

(* the list a run of the snoop list leaves: continuations of a sublist, in order *)
Inductive sn_cont : list snoop_cl -> list snoop_cl -> Prop :=
| sc_nil : sn_cont [] []
| sc_drop : forall s t t', sn_cont t t' -> sn_cont (s :: t) t'
| sc_keep : forall s s' t t', sn_key s' = sn_key s -> sn_cid s' = sn_cid s -> sn_isl1 s' = sn_isl1 s ->
    (sn_kind_ok s -> sn_kind_ok s') -> sn_cont t t' -> sn_cont (s :: t) (s' :: t').

Lemma sn_run_inv : forall l w c w' c' l', sn_run w c l = Ok (w', c', l') -> mw_ok w -> cc_ok c ->
  mw_ok w' /\ cc_ok c' /\ keys_le (w_msi w) (w_msi w') /\ c_snoop c' = c_snoop c /\ sn_cont l l'.
Proof.
  induction l as [|s t IH]; intros w c w' c' l' H MW CC; cbn [sn_run] in H.
  - inversion H; subst. split; [exact MW|]. split; [exact CC|]. split; [apply keys_le_refl|]. split; [reflexivity | constructor].
  - apply bind_ok in H as ([[w1 c1] o] & E1 & H). apply bind_ok in H as ([[w2 c2] t'] & E2 & H). inversion H; subst.
    destruct (sn_step_inv _ _ _ _ _ _ E1 MW CC) as (MW1 & CC1 & K1 & S1 & O1).
    destruct (IH _ _ _ _ _ E2 MW1 CC1) as (MW2 & CC2 & K2 & S2 & O2).
    split; [exact MW2|]. split; [exact CC2|]. split; [eapply keys_le_trans; eauto|]. split; [congruence|].
    destruct o as [s'|]; [|constructor; exact O2].
    destruct (O1 s' eq_refl) as (A & B & C & D). constructor; assumption.
Qed.

Lemma sn_unary_cont : forall k k' id s s', keys_le k k' -> sn_key s' = sn_key s -> sn_isl1 s' = sn_isl1 s ->
  (sn_kind_ok s -> sn_kind_ok s') -> sn_unary k id s -> sn_unary k' id s'.
Proof.
  intros k k' id s s' K EK EI KO (A & B & C & D). unfold sn_unary. rewrite EK, EI.
  split; [apply KO; exact A|]. split; [exact B|]. split; [exact C|]. intros L. apply K. apply D. exact L.
Qed.

Lemma sn_compat_cont : forall s1 s1' s2 s2', sn_key s1' = sn_key s1 -> sn_isl1 s1' = sn_isl1 s1 ->
  sn_key s2' = sn_key s2 -> sn_isl1 s2' = sn_isl1 s2 -> sn_compat s1 s2 -> sn_compat s1' s2'.
Proof. intros s1 s1' s2 s2' K1 I1 K2 I2 H. unfold sn_compat in *. rewrite K1, K2, I1, I2. exact H. Qed.

Lemma sn_cont_unary : forall k k' id l l', sn_cont l l' -> keys_le k k' ->
  Forall (sn_unary k id) l -> Forall (sn_unary k' id) l'.
Proof.
  intros k k' id l l' H K. induction H as [|s t t' H IH|s s' t t' A B C D H IH]; intros F.
  - constructor.
  - inversion F; subst. apply IH. assumption.
  - inversion F as [|? ? F1 F2]; subst. constructor; [|apply IH; exact F2].
    eapply sn_unary_cont; eauto.
Qed.

Lemma sn_cont_forall_compat : forall s s' l l', sn_cont l l' -> sn_key s' = sn_key s -> sn_isl1 s' = sn_isl1 s ->
  Forall (sn_compat s) l -> Forall (sn_compat s') l'.
Proof.
  intros s s' l l' H EK EI. induction H as [|s0 t t' H IH|s0 s0' t t' A B C D H IH]; intros F.
  - constructor.
  - inversion F; subst. apply IH. assumption.
  - inversion F as [|? ? F1 F2]; subst. constructor; [|apply IH; exact F2].
    eapply sn_compat_cont; [exact EK | exact EI | exact A | exact C | exact F1].
Qed.

Lemma sn_cont_compat : forall l l', sn_cont l l' -> ForallOrdPairs sn_compat l -> ForallOrdPairs sn_compat l'.
Proof.
  intros l l' H. induction H as [|s t t' H IH|s s' t t' A B C D H IH]; intros F.
  - constructor.
  - inversion F; subst. apply IH. assumption.
  - inversion F as [|? ? F1 F2]; subst. constructor; [|apply IH; exact F2].
    eapply sn_cont_forall_compat; eauto.
Qed.

Lemma sn_list_ok_cont : forall k k' id l l', sn_cont l l' -> keys_le k k' -> sn_list_ok k id l -> sn_list_ok k' id l'.
Proof.
  intros k k' id l l' H K [U P]. split; [eapply sn_cont_unary; eauto | eapply sn_cont_compat; eauto].
Qed.

Lemma sn_cont_refl : forall l, sn_cont l l.
Proof. induction l as [|s t IH]; [constructor | apply sc_keep; auto]. Qed.

Lemma sn_list_ok_keys_le : forall k k' id l, keys_le k k' -> sn_list_ok k id l -> sn_list_ok k' id l.
Proof. intros k k' id l K H. eapply sn_list_ok_cont; [apply sn_cont_refl | exact K | exact H]. Qed.

Lemma sn_run_list_ok : forall l w c w' c' l' id, sn_run w c l = Ok (w', c', l') -> mw_ok w -> cc_ok c ->
  sn_list_ok (w_msi w) id l -> sn_list_ok (w_msi w') id l'.
Proof.
  intros l w c w' c' l' id H MW CC L. destruct (sn_run_inv _ _ _ _ _ _ H MW CC) as (_ & _ & K & _ & O).
  eapply sn_list_ok_cont; eauto.
Qed.

(* ---------- the creation branch of coSnoop ---------- *)

Lemma sn_closure_some : forall key cid cl, sn_closure key cid = Some cl ->
  sn_key cl = key /\ sn_cid cl = cid /\ sn_kind_ok cl /\ sn_isl1 cl = is_l1_req key.
Proof.
  intros key cid cl H. unfold sn_closure in H. unfold is_l1_req.
  destruct (ck_req key =? rq_l1Evict) eqn:E1.
  { inversion H; subst. apply Z.eqb_eq in E1. cbn [sn_key sn_cid sn_kind_ok sn_isl1]. repeat split; auto. }
  destruct (ck_req key =? rq_l3Evict) eqn:E2.
  { inversion H; subst. apply Z.eqb_eq in E2. cbn [sn_key sn_cid sn_kind_ok sn_isl1]. repeat split; auto.
    rewrite E2. reflexivity. }
  destruct (ck_req key =? rq_l1WriteBack) eqn:E3.
  { inversion H; subst. apply Z.eqb_eq in E3. cbn [sn_key sn_cid sn_kind_ok sn_isl1]. repeat split; auto. }
  destruct (ck_req key =? rq_l3WriteBack) eqn:E4; [|discriminate].
  inversion H; subst. apply Z.eqb_eq in E4. cbn [sn_key sn_cid sn_kind_ok sn_isl1]. repeat split; auto.
Qed.

Lemma l1_req_cases : forall k id key, is_l1_req key = true ->
  (ck_req key = rq_l1Evict /\ sn_accepts k id key = (st_get k id (ck_addr key) =? st_shared)) \/
  (ck_req key = rq_l1WriteBack /\ sn_accepts k id key = (st_get k id (ck_addr key) =? st_modified)).
Proof.
  intros k id key. unfold is_l1_req, sn_accepts.
  destruct (ck_req key =? rq_l1Evict) eqn:E1.
  - intros _. left. apply Z.eqb_eq in E1. split; [exact E1 | reflexivity].
  - cbn [orb]. intros E2. right. apply Z.eqb_eq in E2. split; [exact E2|]. rewrite E2. reflexivity.
Qed.

Lemma st_get_exists : forall k id a, st_get k id a <> st_invalid -> pget zz_eqb (id, a) (k_states k) <> None.
Proof. intros k id a H E. apply H. unfold st_get. rewrite E. reflexivity. Qed.

Lemma accepts_exists : forall k id key, sn_accepts k id key = true -> is_l1_req key = true ->
  pget zz_eqb (id, ck_addr key) (k_states k) <> None.
Proof.
  intros k id key A L. apply st_get_exists.
  destruct (l1_req_cases k id key L) as [[_ E]|[_ E]]; rewrite E in A; apply Z.eqb_eq in A; rewrite A; discriminate.
Qed.

Lemma accepts_l1_same : forall k id key1 key2, sn_accepts k id key1 = true -> sn_accepts k id key2 = true ->
  is_l1_req key1 = true -> is_l1_req key2 = true -> ck_id key1 = ck_id key2 -> ck_addr key1 = ck_addr key2 -> key1 = key2.
Proof.
  intros k id [i1 a1 r1] [i2 a2 r2] A1 A2 L1 L2 EI EA. cbn [ck_id ck_addr] in EI, EA. subst i2 a2.
  destruct (l1_req_cases k id _ L1) as [[R1 E1]|[R1 E1]], (l1_req_cases k id _ L2) as [[R2 E2]|[R2 E2]];
    cbn [ck_req ck_addr] in *; rewrite E1 in A1; rewrite E2 in A2; apply Z.eqb_eq in A1; apply Z.eqb_eq in A2;
    try (subst; reflexivity); rewrite A1 in A2; discriminate.
Qed.

Lemma closures_of_in : forall l cl, In cl (closures_of l) ->
  exists key cid, In (key, cid) l /\ sn_closure key cid = Some cl.
Proof.
  induction l as [|[key cid] t IH]; intros cl H; [destruct H|].
  unfold closures_of in H. cbn [flat_map fst snd] in H. apply in_app_or in H as [H|H].
  - destruct (sn_closure key cid) as [cl0|] eqn:E; [|destruct H]. destruct H as [H|[]]. subst.
    exists key, cid. split; [left; reflexivity | exact E].
  - destruct (IH cl H) as (k0 & c0 & I & E). exists k0, c0. split; [right; exact I | exact E].
Qed.

Lemma closures_compat : forall k id l, no_conflict_pairs (map fst l) -> NoDup (map fst l) ->
  (forall kc, In kc l -> ck_id (fst kc) = id /\ sn_accepts k id (fst kc) = true) ->
  ForallOrdPairs sn_compat (closures_of l).
Proof.
  intros k id. induction l as [|[key cid] t IH]; intros NC ND HA; [constructor|].
  cbn [map fst] in NC, ND. inversion NC as [|? ? NC1 NC2]; subst. inversion ND as [|? ? ND1 ND2]; subst.
  assert (IHt : ForallOrdPairs sn_compat (closures_of t)).
  { apply IH; [exact NC2 | exact ND2 | intros kc I; apply HA; right; exact I]. }
  unfold closures_of. cbn [flat_map fst snd]. fold (closures_of t).
  destruct (sn_closure key cid) as [cl|] eqn:EC; [|exact IHt].
  cbn [app]. constructor; [|exact IHt].
  apply Forall_forall. intros cl2 I2. destruct (closures_of_in _ _ I2) as (key2 & cid2 & I & E2).
  destruct (sn_closure_some _ _ _ EC) as (K1 & _ & _ & L1). destruct (sn_closure_some _ _ _ E2) as (K2 & _ & _ & L2).
  unfold sn_compat. rewrite K1, K2, L1, L2.
  split.
  - rewrite Forall_forall in NC1. apply NC1. apply in_map_iff. exists (key2, cid2). split; [reflexivity | exact I].
  - intros B1 B2 EA.
    destruct (HA (key, cid) (or_introl eq_refl)) as [I1 A1]. destruct (HA (key2, cid2) (or_intror I)) as [I2' A2].
    cbn [fst] in *.
    assert (EK : key = key2) by (eapply accepts_l1_same; eauto; congruence).
    rewrite <- EK in I. apply ND1. apply in_map_iff. exists (key, cid2). split; [reflexivity | exact I].
Qed.

Lemma stale_if_states : forall b w, k_states (w_msi (stale_if b w)) = k_states (w_msi w).
Proof. intros [|] w; reflexivity. Qed.

Lemma stale_if_ok : forall b w, mw_ok w -> mw_ok (stale_if b w).
Proof.
  intros [|] w MW; [|exact MW]. unfold stale_if. apply mw_ok_msi; [exact MW|].
  apply (cmds_ok_same (w_msi w)); [reflexivity | reflexivity | exact (proj2 MW)].
Qed.

Lemma cc_ok_snoop : forall c l, cc_ok c -> cc_ok (set_snoop c l).
Proof. intros c l H. exact H. Qed.

(* coSnoop with an empty list: the closures of the requests addressed to the core *)
Lemma sn_create_branch : forall ord cycle w c w' c',
  c_snoop c = [] ->
  cc_snoop_cycle ord cycle w c = (false, Ok (w', c')) -> mw_ok w -> cc_ok c ->
  mw_ok w' /\ cc_ok c' /\ keys_le (w_msi w) (w_msi w') /\ sn_list_ok (w_msi w') (c_id c') (c_snoop c') /\ c_id c' = c_id c.
Proof.
  intros ord cycle w c w' c' ES H MW CC. unfold cc_snoop_cycle in H. rewrite ES in H. cbv zeta in H.
  set (reqs := filter (fun kc : cmdk * Z => ck_id (fst kc) =? c_id c) (k_cmds (w_msi w))) in *.
  set (order := map_order ord cycle (- (3 + c_id c)) (map snd reqs)) in *.
  change (flat_map (fun cid : Z => filter (fun kc : cmdk * Z => snd kc =? cid) reqs) order) with (snoop_sorted order reqs) in H.
  set (sorted := snoop_sorted order reqs) in *.
  injection H as HF HC.
  destruct MW as [W3 (N1 & B & N2 & A)].
  assert (P : Permutation sorted reqs).
  { apply snoop_sorted_perm. apply NoDup_map_filter. exact N1. }
  assert (IN : forall kc, In kc sorted -> In kc (k_cmds (w_msi w)) /\ ck_id (fst kc) = c_id c).
  { intros kc I. apply (Permutation_in _ P) in I. apply filter_In in I as [I E]. apply Z.eqb_eq in E. auto. }
  rewrite sn_create_all_spec in HC.
  destruct (all_accepted (w_msi w) (c_id c) sorted) eqn:AA; [|discriminate].
  injection HC as <- <-. rewrite ES. cbn [app c_id c_snoop set_snoop].
  unfold all_accepted in AA. rewrite forallb_forall in AA.
  split; [apply stale_if_ok; split; [exact W3 | repeat split; assumption]|].
  split; [apply cc_ok_snoop; exact CC|].
  split; [apply keys_le_same; apply stale_if_states|].
  split; [|reflexivity].
  split.
  - apply Forall_forall. intros cl I. destruct (closures_of_in _ _ I) as (key & cid & IS & EC).
    destruct (sn_closure_some _ _ _ EC) as (K1 & _ & KO & L1).
    destruct (IN _ IS) as [IK EI]. cbn [fst] in EI.
    pose proof (AA _ IS) as AC. cbn [fst snd] in AC. apply andb_true_iff in AC as [AC _].
    unfold sn_unary. rewrite K1, L1. split; [exact KO|]. split; [exact EI|]. split; [eapply A; exact IK|].
    intros L. rewrite stale_if_states. apply accepts_exists; assumption.
  - apply (closures_compat (w_msi w) (c_id c)).
    + apply (no_conflict_pairs_perm (map fst reqs)); [apply Permutation_map; apply Permutation_sym; exact P|].
      apply snoop_order_matters_pairs. exact HF.
    + apply (Permutation_NoDup (l := map fst reqs)); [apply Permutation_map; apply Permutation_sym; exact P|].
      apply NoDup_map_filter. exact N2.
    + intros kc I. split; [apply (IN _ I)|].
      pose proof (AA _ I) as AC. apply andb_true_iff in AC as [AC _]. exact AC.
Qed.

Lemma cc_snoop_cycle_inv : forall ord cycle w c w' c',
  cc_snoop_cycle ord cycle w c = (false, Ok (w', c')) -> mw_ok w -> cc_ok c ->
  sn_list_ok (w_msi w) (c_id c) (c_snoop c) ->
  mw_ok w' /\ cc_ok c' /\ keys_le (w_msi w) (w_msi w') /\ sn_list_ok (w_msi w') (c_id c') (c_snoop c') /\ c_id c' = c_id c.
Proof.
  intros ord cycle w c w' c' H MW CC L.
  destruct (c_snoop c) as [|s0 t0] eqn:ES; [eapply sn_create_branch; eauto|].
  unfold cc_snoop_cycle in H. rewrite ES in H. apply (f_equal snd) in H. cbn [snd] in H.
  apply bind_ok in H as ([[w1 c1] l] & ER & H). inversion H; subst.
  destruct (sn_run_inv _ _ _ _ _ _ ER MW CC) as (MW1 & CC1 & K1 & S1 & O1).
  pose proof (sn_run_id _ _ _ _ _ _ ER) as EI.
  split; [exact MW1|]. split; [apply cc_ok_snoop; exact CC1|]. split; [exact K1|].
  split; [|exact EI]. cbn [c_id c_snoop set_snoop]. rewrite EI.
  eapply sn_list_ok_cont; eauto.
Qed.

(* without the ghost flag: nothing about the new snoop list *)
Lemma cc_snoop_cycle_inv_weak : forall ord cycle w c w' c',
  snd (cc_snoop_cycle ord cycle w c) = Ok (w', c') -> mw_ok w -> cc_ok c ->
  sn_list_ok (w_msi w) (c_id c) (c_snoop c) ->
  mw_ok w' /\ cc_ok c' /\ keys_le (w_msi w) (w_msi w') /\ c_id c' = c_id c.
Proof.
  intros ord cycle w c w' c' H MW CC L. unfold cc_snoop_cycle in H.
  destruct (c_snoop c) as [|s0 t0] eqn:ES; cbn [snd] in H.
  - cbv zeta in H. rewrite sn_create_all_spec in H. destruct (all_accepted _ _ _); [|discriminate].
    injection H as <- <-. split; [apply stale_if_ok; exact MW|]. split; [apply cc_ok_snoop; exact CC|].
    split; [apply keys_le_same; apply stale_if_states | reflexivity].
  - apply bind_ok in H as ([[w1 c1] l] & ER & H). inversion H; subst.
    destruct (sn_run_inv _ _ _ _ _ _ ER MW CC) as (MW1 & CC1 & K1 & S1 & O1).
    split; [exact MW1|]. split; [apply cc_ok_snoop; exact CC1|]. split; [exact K1|].
    exact (sn_run_id _ _ _ _ _ _ ER).
Qed.

(* ---------- all the controllers ---------- *)

Lemma mem_inv_keys_le_tail : forall w w1 (t : list cc8), keys_le (w_msi w) (w_msi w1) ->
  Forall (fun c => sn_list_ok (w_msi w) (c_id c) (c_snoop c)) t ->
  Forall (fun c => sn_list_ok (w_msi w1) (c_id c) (c_snoop c)) t.
Proof.
  intros w w1 t K F. eapply Forall_impl; [|exact F]. intros c H. cbv beta in *. eapply sn_list_ok_keys_le; eauto.
Qed.

(* after coSnoop of the first controller *)
Lemma cc_snoop_cycle_mem_inv : forall ord cycle w c t w1 c1,
  cc_snoop_cycle ord cycle w c = (false, Ok (w1, c1)) -> mem_inv w (c :: t) ->
  mem_inv w1 (c1 :: t) /\ keys_le (w_msi w) (w_msi w1).
Proof.
  intros ord cycle w c t w1 c1 H (MW & FC & FS).
  inversion FC as [|? ? CC FCt]; subst. inversion FS as [|? ? L FSt]; subst.
  destruct (cc_snoop_cycle_inv _ _ _ _ _ _ H MW CC L) as (MW1 & CC1 & K1 & L1 & _).
  split; [|exact K1]. split; [exact MW1|]. split; [constructor; assumption|].
  constructor; [exact L1|]. eapply mem_inv_keys_le_tail; eauto.
Qed.

Lemma snoops_cycle_inv_le : forall ord cycle ccs w w' ccs',
  snoops_cycle ord cycle w ccs = (false, Ok (w', ccs')) -> mem_inv w ccs ->
  mem_inv w' ccs' /\ keys_le (w_msi w) (w_msi w').
Proof.
  intros ord cycle. induction ccs as [|c t IH]; intros w w' ccs' H MI; cbn [snoops_cycle] in H.
  - inversion H; subst. split; [exact MI | apply keys_le_refl].
  - destruct (cc_snoop_cycle ord cycle w c) as [os1 r1] eqn:E1.
    destruct r1 as [[w1 c1]| |]; try (inversion H; fail).
    destruct (snoops_cycle ord cycle w1 t) as [os2 r2] eqn:E2.
    injection H as HO HR. apply orb_false_iff in HO as [-> ->].
    apply bind_ok in HR as ([w2 t'] & -> & HR). cbn [fst snd] in HR. inversion HR; subst.
    destruct (cc_snoop_cycle_mem_inv _ _ _ _ _ _ _ E1 MI) as [(MW1 & FC1 & FS1) K1].
    inversion FC1 as [|? ? CC1 FCt]; subst. inversion FS1 as [|? ? L1 FSt]; subst.
    destruct (IH _ _ _ E2 (conj MW1 (conj FCt FSt))) as [(MW2 & FC2 & FS2) K2].
    split; [|eapply keys_le_trans; eauto].
    split; [exact MW2|]. split; [constructor; assumption|].
    constructor; [eapply sn_list_ok_keys_le; eauto | exact FS2].
Qed.

Lemma snoops_cycle_inv : forall ord cycle w ccs w' ccs',
  snoops_cycle ord cycle w ccs = (false, Ok (w', ccs')) -> mem_inv w ccs -> mem_inv w' ccs'.
Proof. intros ord cycle w ccs w' ccs' H MI. exact (proj1 (snoops_cycle_inv_le _ _ _ _ _ _ H MI)). Qed.

(* ------------------------------------------------------------------ *)
(* 3. the pipeline never touches the shared L3                          *)
(* ------------------------------------------------------------------ *)

(* the shared L3 of the machine *)
Definition l3x (x : mx) : cache := m_l3 (x_m x).

(* ---------- 1. setters ---------- *)

Lemma set_forward3_l3 : forall x pc reg v, l3x (set_forward3 x pc reg v) = l3x x.
Proof. reflexivity. Qed.
Lemma set_chan3_l3 : forall x c, l3x (set_chan3 x c) = l3x x.
Proof. reflexivity. Qed.
Lemma set_pcb3_l3 : forall x b, l3x (set_pcb3 x b) = l3x x.
Proof. reflexivity. Qed.
Lemma set_ebus3_l3 : forall x b, l3x (set_ebus3 x b) = l3x x.
Proof. reflexivity. Qed.
Lemma set_pend3_l3 : forall x p, l3x (set_pend3 x p) = l3x x.
Proof. reflexivity. Qed.
Lemma set_prev3_l3 : forall x p, l3x (set_prev3 x p) = l3x x.
Proof. reflexivity. Qed.
Lemma set_seq3_l3 : forall x s, l3x (set_seq3 x s) = l3x x.
Proof. reflexivity. Qed.
Lemma set_rats3_l3 : forall x c t, l3x (set_rats3 x c t) = l3x x.
Proof. reflexivity. Qed.
Lemma set_fwd3_l3 : forall x f, l3x (set_fwd3 x f) = l3x x.
Proof. reflexivity. Qed.
Lemma set_next3_l3 : forall x n, l3x (set_next3 x n) = l3x x.
Proof. reflexivity. Qed.
Lemma set_os3_l3 : forall x b, l3x (set_os3 x b) = l3x x.
Proof. reflexivity. Qed.
Lemma or_os_l3 : forall x b, l3x (or_os x b) = l3x x.
Proof. reflexivity. Qed.
Lemma inc_seq3_l3 : forall x, l3x (inc_seq3 x) = l3x x.
Proof. reflexivity. Qed.
Lemma set_m_l3 : forall x m, l3x (set_m x m) = m_l3 m.
Proof. reflexivity. Qed.
Lemma connected3_l3 : forall x cycle, l3x (connected3 x cycle) = l3x x.
Proof. reflexivity. Qed.
Lemma wbus_connect3_l3 : forall x cycle, l3x (wbus_connect3 x cycle) = l3x x.
Proof. reflexivity. Qed.

(* the Mvp60.v helpers on mach *)
Lemma add_pending6_l3 : forall m rs ws, m_l3 (add_pending6 m rs ws) = m_l3 m.
Proof. reflexivity. Qed.
Lemma del_pending6_l3 : forall m rs ws, m_l3 (del_pending6 m rs ws) = m_l3 m.
Proof. reflexivity. Qed.
Lemma do_flush6_l3 : forall m pc, m_l3 (do_flush6 m pc) = m_l3 m.
Proof. reflexivity. Qed.

(* ---------- 2. RAT, branch unit, flush ---------- *)

Lemma rat_commit3_l3 : forall ord cycle x, l3x (rat_commit3 ord cycle x) = l3x x.
Proof. reflexivity. Qed.
Lemma rat_rollback3_l3 : forall ord cycle x s, l3x (rat_rollback3 ord cycle x s) = l3x x.
Proof. reflexivity. Qed.
Lemma fu_reset3_l3 : forall x pc, l3x (fu_reset3 x pc) = l3x x.
Proof. reflexivity. Qed.
Lemma bu_resolved3_l3 : forall x pc pcTo, l3x (bu_resolved3 x pc pcTo) = l3x x.
Proof. reflexivity. Qed.
Lemma bu_assert3_l3 : forall x r, l3x (bu_assert3 x r) = l3x x.
Proof.
  intros. unfold bu_assert3.
  destruct (InstructionType_IsUnconditionalBranch _).
  - destruct (btb_get _ _); reflexivity.
  - destruct (InstructionType_IsConditionalBranch _); reflexivity.
Qed.
Lemma do_flush3_l3 : forall x pc, l3x (do_flush3 x pc) = l3x x.
Proof. reflexivity. Qed.

(* ---------- 3. decode unit ---------- *)

Lemma du_loop3_l3 : forall q app cycle ret pbr cbus x ret' pbr' q' cbus' x',
  du_loop3 q app cycle ret pbr cbus x = Ok (ret', pbr', q', cbus', x') -> l3x x' = l3x x.
Proof.
  induction q as [|pc q IH]; intros app cycle ret pbr cbus x ret' pbr' q' cbus' x' H; simpl in H.
  - inversion H; reflexivity.
  - destruct (nlen6 app <=? Z.quot pc 4); [inversion H; reflexivity|].
    destruct (Z.quot pc 4 <? 0); [discriminate|].
    destruct (nth_error app (Z.to_nat (Z.quot pc 4))) as [i|]; [|discriminate].
    destruct (InstructionType_IsUnconditionalBranch (instr_InstructionType i)); [inversion H; reflexivity|].
    destruct (instr_InstructionType i =? Ret); [inversion H; reflexivity|].
    apply IH in H. exact H.
Qed.

Lemma du_cycle3_l3 : forall app cycle x x', du_cycle3 app cycle x = Ok x' -> l3x x' = l3x x.
Proof.
  intros app cycle x x' H. unfold du_cycle3 in H.
  destruct (m_dret (x_m x)); [inversion H; reflexivity|].
  destruct (m_dpbr (x_m x)); [inversion H; reflexivity|].
  destruct (du_loop3 _ _ _ _ _ _ _) as [[[[[ret pbr] q'] cbus'] x1]| |] eqn:E; simpl in H; try discriminate.
  inversion H; subst. apply du_loop3_l3 in E.
  unfold l3x in *. cbn [x_m set_m m_l3 set_cbus set_dbus set_du]. reflexivity.
Qed.

(* ---------- 4. control unit ---------- *)

Lemma push_runner3_l3 : forall x cycle r x' r', push_runner3 x cycle r = Some (x', r') -> l3x x' = l3x x.
Proof.
  intros x cycle r x' r' H. unfold push_runner3 in H.
  destruct (negb (bb_canadd (x_ebus x))); [discriminate|]. inversion H; reflexivity.
Qed.

Lemma push_or_stop3_l3 : forall x cycle r stop p s r' x',
  push_or_stop3 x cycle r stop = (p, s, r', x') -> l3x x' = l3x x.
Proof.
  intros x cycle r stop p s r' x' H. unfold push_or_stop3, push_runner3 in H.
  destruct (negb (bb_canadd (x_ebus x))); inversion H; reflexivity.
Qed.

Lemma handle_runner3_l3 : forall ord cycle x sk pb r p s r' x',
  handle_runner3 ord cycle x sk pb r = (p, s, r', x') -> l3x x' = l3x x.
Proof.
  intros ord cycle x sk pb r p s r' x' H. unfold handle_runner3 in H.
  destruct (_ && pb); [inversion H; subst; reflexivity|].
  destruct (_ && _); [inversion H; subst; reflexivity|].
  destruct (skipped_hazard3 sk (q_instr r)); [inversion H; subst; reflexivity|].
  destruct (zlen (hazards_of x (q_instr r)) =? 0).
  - apply push_or_stop3_l3 in H. exact H.
  - destruct (should_forward3 ord cycle x r (hazards_of x (q_instr r))) as [[pr reg]|].
    + apply push_or_stop3_l3 in H. exact H.
    + destruct (should_rename3 _).
      * apply push_or_stop3_l3 in H. exact H.
      * inversion H; subst; reflexivity.
Qed.

Lemma after_push3_l3 : forall x l r, l3x (fst (after_push3 x l r)) = l3x x.
Proof. intros. unfold after_push3. simpl. destruct (InstructionType_IsConditionalBranch _); reflexivity. Qed.

Lemma cu_pending3_l3 : forall ord cycle ps kept l x st pend l' x',
  cu_pending3 ord cycle ps kept l x = (st, pend, l', x') -> l3x x' = l3x x.
Proof.
  induction ps as [|r t IH]; intros kept l x st pend l' x' H; simpl in H.
  - inversion H; subst; reflexivity.
  - destruct (handle_runner3 ord cycle x (l_skipped l) (l_pbranch l) r) as [[[p s] r1] x1] eqn:EH.
    apply handle_runner3_l3 in EH.
    destruct p.
    + destruct (after_push3 x1 l r1) as [x2 l2] eqn:EA.
      assert (HE : l3x x2 = l3x x1) by (pose proof (after_push3_l3 x1 l r1) as Q; rewrite EA in Q; exact Q).
      destruct s; [inversion H; subst; congruence | apply IH in H; congruence].
    + destruct s; [inversion H; subst; congruence | apply IH in H; congruence].
Qed.

Lemma cu_incoming3_l3 : forall ord cycle q pend l x q' pend' l' x',
  cu_incoming3 ord cycle q pend l x = (q', pend', l', x') -> l3x x' = l3x x.
Proof.
  induction q as [|r0 t IH]; intros pend l x q' pend' l' x' H; simpl in H.
  - destruct (pendingLength <=? zlen pend); inversion H; subst; reflexivity.
  - destruct (pendingLength <=? zlen pend); [inversion H; subst; reflexivity|].
    destruct (handle_runner3 ord cycle x (l_skipped l) (l_pbranch l) (r3_of r0)) as [[[p s] r1] x1] eqn:EH.
    apply handle_runner3_l3 in EH.
    destruct p.
    + destruct (after_push3 x1 l r1) as [x2 l2] eqn:EA.
      assert (HE : l3x x2 = l3x x1) by (pose proof (after_push3_l3 x1 l r1) as Q; rewrite EA in Q; exact Q).
      destruct s; [inversion H; subst; congruence | apply IH in H; congruence].
    + destruct s; [inversion H; subst; congruence | apply IH in H; congruence].
Qed.

Lemma cu_cycle3_l3 : forall ord cycle x, l3x (cu_cycle3 ord cycle x) = l3x x.
Proof.
  intros ord cycle x. unfold cu_cycle3.
  destruct (negb (bb_canadd (x_ebus x))); [reflexivity|].
  destruct (cu_pending3 ord cycle (x_pend x) [] (mk_cul [] [] false) x) as [[[st pend1] l1] x1] eqn:E1.
  apply cu_pending3_l3 in E1.
  destruct st; [exact E1|].
  destruct (cu_incoming3 ord cycle (bb_q (m_cbus (x_m x1))) pend1 l1 x1) as [[[q' pend2] l2] x2] eqn:E2.
  apply cu_incoming3_l3 in E2. rewrite <- E1, <- E2. reflexivity.
Qed.

(* ---------- 5. write units ---------- *)

Lemma wu_cycle6_l3 : forall m w before m' w', wu_cycle6 m w before = Ok (m', w') -> m_l3 m' = m_l3 m.
Proof.
  intros m w before m' w' H. unfold wu_cycle6 in H.
  split_hyp H; simpl in *; try discriminate; inversion H; subst; simpl; auto.
Qed.

Lemma wu_cycle3_l3 : forall x w before x' w', wu_cycle3 x w before = Ok (x', w') -> l3x x' = l3x x.
Proof.
  intros x w before x' w' H. unfold wu_cycle3 in H.
  destruct (u_co w).
  - destruct (bb_get (m_wbus (x_m x))) as [wbus' got].
    destruct got as [c|]; [|inversion H; reflexivity].
    destruct (negb (before =? -1) && (before <? w_seq c)); [inversion H; reflexivity|].
    destruct (RegisterChange (w_exe c)); [inversion H; reflexivity|].
    destruct (MemoryChange (w_exe c)); inversion H; reflexivity.
  - apply bind_ok in H as ([m1 w1] & E & H). apply wu_cycle6_l3 in E.
    inversion H; subst. exact E.
Qed.

Lemma wus_cycle3_l3 : forall wus x before x' wus', wus_cycle3 x wus before = Ok (x', wus') -> l3x x' = l3x x.
Proof.
  induction wus as [|w t IH]; intros x before x' wus' H; simpl in H.
  - inversion H; reflexivity.
  - destruct (wu_cycle3 x w before) as [[x1 w1]| |] eqn:E1; simpl in H; try discriminate.
    destruct (wus_cycle3 x1 t before) as [[x2 t']| |] eqn:E2; simpl in H; try discriminate.
    inversion H; subst. apply wu_cycle3_l3 in E1. apply IH in E2. congruence.
Qed.

Lemma wu_cycle8_l3 : forall x w before x' w', wu_cycle8 x w before = Ok (x', w') -> l3x x' = l3x x.
Proof.
  intros x w before x' w' H. unfold wu_cycle8 in H.
  destruct (bb_q (m_wbus (x_m x))) as [|c q].
  - eapply wu_cycle3_l3; eauto.
  - destruct (_ && _); [discriminate|]. eapply wu_cycle3_l3; eauto.
Qed.

Lemma wus_cycle8_l3 : forall wus x before x' wus', wus_cycle8 x wus before = Ok (x', wus') -> l3x x' = l3x x.
Proof.
  induction wus as [|w t IH]; intros x before x' wus' H; simpl in H.
  - inversion H; reflexivity.
  - destruct (wu_cycle8 x w before) as [[x1 w1]| |] eqn:E1; simpl in H; try discriminate.
    destruct (wus_cycle8 x1 t before) as [[x2 t']| |] eqn:E2; simpl in H; try discriminate.
    inversion H; subst. apply wu_cycle8_l3 in E1. apply IH in E2. congruence.
Qed.

(* ---------- 6. MVP-8.0: control unit and front8 ---------- *)

Lemma cu_cycle8_l3 : forall ord cycle y,
  l3x (y_x (cu_cycle8 ord cycle y)) = l3x (y_x y) /\ y_ccs (cu_cycle8 ord cycle y) = y_ccs y /\
  k_cmds (y_msi (cu_cycle8 ord cycle y)) = k_cmds (y_msi y) /\
  k_states (y_msi (cu_cycle8 ord cycle y)) = k_states (y_msi y) /\
  k_next (y_msi (cu_cycle8 ord cycle y)) = k_next (y_msi y).
Proof.
  intros ord cycle y. unfold cu_cycle8.
  destruct (k_stale (y_msi y)).
  - cbn [y_x y_ccs y_msi set_states k_cmds k_states k_next]. repeat split; reflexivity.
  - cbn [y_x y_ccs y_msi]. repeat split; try reflexivity. apply cu_cycle3_l3.
Qed.

(* front8_eq of Mvp80OrdProofs.v, restated so that this file does not depend on it *)
Lemma front8_unfold_l3 : forall app ord cycle y,
  front8 app ord cycle y =
  match fu_cycle6 app cycle (m_fu (x_m (connected3 (y_x y) cycle))) (m_l1i (x_m (connected3 (y_x y) cycle))) (m_dbus (x_m (connected3 (y_x y) cycle))) with
  | Ok (fu1, l1i1, dbus1) =>
      match du_cycle3 app cycle (set_m (connected3 (y_x y) cycle) (set_dbus (set_l1i (set_fu (x_m (connected3 (y_x y) cycle)) fu1) l1i1) dbus1)) with
      | Ok x1 => Ok (cu_cycle8 ord cycle (set_x y x1))
      | Err e => Err e
      | Panic => Panic
      end
  | Err e => Err e
  | Panic => Panic
  end.
Proof. reflexivity. Qed.

Lemma front8_l3 : forall app ord cycle y y',
  front8 app ord cycle y = Ok y' ->
  l3x (y_x y') = l3x (y_x y) /\ y_ccs y' = y_ccs y /\ k_cmds (y_msi y') = k_cmds (y_msi y) /\
  k_states (y_msi y') = k_states (y_msi y) /\ k_next (y_msi y') = k_next (y_msi y).
Proof.
  intros app ord cycle y y' H. rewrite front8_unfold_l3 in H.
  destruct (fu_cycle6 app cycle _ _ _) as [[[fu1 l1i1] dbus1]| |]; try discriminate H.
  destruct (du_cycle3 app cycle _) as [x1| |] eqn:ED; try discriminate H.
  injection H as H. subst y'.
  apply du_cycle3_l3 in ED.
  destruct (cu_cycle8_l3 ord cycle (set_x y x1)) as (A & B & C & D & E).
  rewrite A, B, C, D, E. cbn [y_x y_ccs y_msi set_x].
  repeat split; try reflexivity. rewrite ED. reflexivity.
Qed.

(* the same for front3 of Mvp63.v *)
Lemma front3_l3 : forall app ord cycle x x', front3 app ord cycle x = Ok x' -> l3x x' = l3x x.
Proof.
  intros app ord cycle x x' H. rewrite front3_eq in H.
  destruct (fu_cycle6 app cycle _ _ _) as [[[fu1 l1i1] dbus1]| |]; try discriminate H.
  destruct (du_cycle3 app cycle _) as [x1| |] eqn:ED; try discriminate H.
  injection H as H. subst x'. rewrite cu_cycle3_l3. apply du_cycle3_l3 in ED. rewrite ED. reflexivity.
Qed.

(* ------------------------------------------------------------------ *)
(* 3. the machine                                                       *)
(* ------------------------------------------------------------------ *)

Lemma sn_list_ok_states : forall k k' id l, k_states k' = k_states k -> sn_list_ok k id l -> sn_list_ok k' id l.
Proof. intros k k' id l E H. eapply sn_list_ok_keys_le; [apply keys_le_same; exact E | exact H]. Qed.

Lemma my_inv_ext : forall y y', l3x (y_x y') = l3x (y_x y) -> k_cmds (y_msi y') = k_cmds (y_msi y) ->
  k_next (y_msi y') = k_next (y_msi y) -> k_states (y_msi y') = k_states (y_msi y) -> y_ccs y' = y_ccs y ->
  my_inv y -> my_inv y'.
Proof.
  intros y y' E3 EC EN ES ECC ((W3 & C) & FC & FS). unfold my_inv, mem_inv, mw_ok, mw_of in *. cbn [w_l3 w_msi] in *.
  unfold l3x in E3. rewrite E3, ECC.
  split; [split; [exact W3 | apply (cmds_ok_same (y_msi y)); assumption]|]. split; [exact FC|].
  eapply Forall_impl; [|exact FS]. intros c H. cbv beta in *. eapply sn_list_ok_states; eauto.
Qed.

Lemma my_inv_set_x : forall y x', l3x x' = l3x (y_x y) -> my_inv y -> my_inv (set_x y x').
Proof. intros y x' E H. apply (my_inv_ext y); try reflexivity; assumption. Qed.

Lemma mw_of_put : forall y w i c1, mw_of (put_cc (put_mw y w) i c1) = w.
Proof. intros y [m l k] i c1. reflexivity. Qed.

Lemma mw_of_put_mw : forall y w, mw_of (put_mw y w) = w.
Proof. intros y [m l k]. reflexivity. Qed.

Lemma Forall_set_nth6 : forall {A} (P : A -> Prop) l i x, Forall P l -> P x -> Forall P (set_nth6 l i x).
Proof.
  intros A P. induction l as [|h t IH]; intros i x F Px; [constructor|].
  inversion F; subst. destruct i; cbn [set_nth6]; constructor; auto.
Qed.

(* controller i and the shared part have moved, the other controllers have not *)
Lemma mem_inv_upd : forall w w' ccs i c c1, mem_inv w ccs -> nth_error ccs i = Some c ->
  mw_ok w' -> cc_ok c1 -> keys_le (w_msi w) (w_msi w') -> c_snoop c1 = c_snoop c -> c_id c1 = c_id c ->
  mem_inv w' (set_nth6 ccs i c1).
Proof.
  intros w w' ccs i c c1 (MW & FC & FS) EN MW' CC1 K ES EI.
  split; [exact MW'|]. split; [apply Forall_set_nth6; assumption|].
  pose proof (mem_inv_keys_le_tail w w' ccs K FS) as FS'.
  apply Forall_set_nth6; [exact FS'|]. rewrite ES, EI.
  rewrite Forall_forall in FS'. apply FS'. eapply nth_error_In; eauto.
Qed.

Lemma put_mw_inv : forall y w, mw_ok w -> keys_le (y_msi y) (w_msi w) -> my_inv y -> my_inv (put_mw y w).
Proof.
  intros y w MW K (_ & FC & FS). unfold my_inv. rewrite mw_of_put_mw. split; [exact MW|]. split; [exact FC|].
  exact (mem_inv_keys_le_tail (mw_of y) w (y_ccs y) K FS).
Qed.

Lemma or_os8_inv : forall y b, my_inv y -> my_inv (or_os8 y b).
Proof. intros y b H. unfold or_os8. apply my_inv_set_x; [reflexivity | exact H]. Qed.

Lemma wbus_connect8_inv : forall y cycle, my_inv y -> my_inv (wbus_connect8 y cycle).
Proof. intros y cycle H. unfold wbus_connect8. apply my_inv_set_x; [apply wbus_connect3_l3 | exact H]. Qed.

Lemma cu_cycle8_inv : forall ord cycle y, my_inv y -> my_inv (cu_cycle8 ord cycle y).
Proof.
  intros ord cycle y H. destruct (cu_cycle8_l3 ord cycle y) as (A & B & C & D & E).
  apply (my_inv_ext y); assumption.
Qed.

Lemma front8_inv : forall app ord cycle y y', front8 app ord cycle y = Ok y' -> my_inv y -> my_inv y'.
Proof.
  intros app ord cycle y y' H MI. destruct (front8_l3 _ _ _ _ _ H) as (A & B & C & D & E).
  apply (my_inv_ext y); assumption.
Qed.

Lemma snoops8_inv : forall ord cycle y y', snoops8 ord cycle y = Ok y' -> y_os y' = false -> my_inv y -> my_inv y'.
Proof.
  intros ord cycle y y' H HO MI. unfold snoops8 in H.
  destruct (snoops_cycle ord cycle (mw_of y) (y_ccs y)) as [os r] eqn:E.
  apply bind_ok in H as ([w1 ccs1] & -> & H). inversion H; subst. cbn [fst snd] in *.
  unfold or_os8, y_os in HO. simpl in HO. apply orb_false_iff in HO as [_ ->].
  apply snoops_cycle_inv in E; [|exact MI].
  apply or_os8_inv. unfold my_inv. cbn [y_ccs set_ccs].
  change (mw_of (set_ccs (put_mw y w1) ccs1)) with (mw_of (put_mw y w1)). rewrite mw_of_put_mw. exact E.
Qed.

(* ---------- eu.go ---------- *)

Lemma eu_flush8_inv : forall y i e y' e', eu_flush8 y i e = Ok (y', e') -> my_inv y -> my_inv y'.
Proof.
  intros y i e y' e' H MI. unfold eu_flush8 in H.
  destruct (nth_error (y_ccs y) i) as [c|] eqn:EN; [|discriminate].
  apply bind_ok in H as ([k1 c1] & EF & H). inversion H; subst. cbn [fst snd].
  pose proof MI as (MW & FC & FS).
  assert (CC : cc_ok c) by (rewrite Forall_forall in FC; apply FC; eapply nth_error_In; eauto).
  destruct (cc_flush_inv _ _ _ _ EF (proj2 MW) CC) as (C1 & K1 & CC1 & S1).
  unfold my_inv.
  change (mem_inv (set_wmsi (mw_of y) k1) (set_nth6 (y_ccs y) i c1)).
  eapply mem_inv_upd; [exact MI | exact EN | apply mw_ok_msi; assumption | exact CC1 | exact K1 | exact S1 |].
  eapply cc_flush_id; eauto.
Qed.

Lemma eu_write8_inv : forall y i e addrs data y' e' o, eu_write8 y i e addrs data = Ok (y', e', o) -> my_inv y -> my_inv y'.
Proof.
  intros y i e addrs data y' e' o H MI. unfold eu_write8 in H.
  destruct (nth_error (y_ccs y) i) as [c|] eqn:EN; [|discriminate].
  apply bind_ok in H as ([[w c1] done] & EW & H). inversion H; subst.
  pose proof MI as (MW & FC & FS).
  assert (CC : cc_ok c) by (rewrite Forall_forall in FC; apply FC; eapply nth_error_In; eauto).
  destruct (cc_write_cycle_ok _ _ _ _ _ _ _ EW MW CC) as (MW1 & CC1 & K1 & S1).
  unfold my_inv. rewrite mw_of_put. change (y_ccs (put_cc (put_mw y w) i c1)) with (set_nth6 (y_ccs y) i c1).
  eapply mem_inv_upd; [exact MI | exact EN | exact MW1 | exact CC1 | exact K1 | exact S1 |].
  eapply cc_write_cycle_id; eauto.
Qed.

Ltac l3_step := first
  [ rewrite rat_rollback3_l3 | rewrite rat_commit3_l3 | rewrite bu_resolved3_l3 | rewrite bu_assert3_l3
  | rewrite set_m_l3 | rewrite set_pcb3_l3 | rewrite set_chan3_l3 | rewrite set_forward3_l3 | rewrite set_ebus3_l3
  | match goal with |- context [m_l3 (set_bu (x_m ?x) ?b)] => change (m_l3 (set_bu (x_m x) b)) with (l3x x) end
  | match goal with |- context [m_l3 (set_wbus (x_m ?x) ?b)] => change (m_l3 (set_wbus (x_m x) b)) with (l3x x) end ].
Ltac l3_tac := repeat l3_step; try reflexivity.

Lemma eu_run8_inv : forall labels ord cycle y i e y' e' o,
  eu_run8 labels ord cycle y i e = Ok (y', e', o) -> my_inv y -> my_inv y'.
Proof.
  intros labels ord cycle y i e y' e' o H MI. unfold eu_run8 in H. cbv zeta in H.
  destruct (h_runner e) as [r|]; [|discriminate].
  destruct (instr_Run _ _ _ _ _ _) as [exe|er|]; [| inversion H; subst; apply my_inv_set_x; [reflexivity | exact MI] | discriminate].
  destruct (Return exe); [inversion H; subst; apply my_inv_set_x; [reflexivity | exact MI]|].
  destruct (MemoryChange exe).
  { eapply eu_write8_inv; [exact H|]. apply my_inv_set_x; [reflexivity | exact MI]. }
  split_hyp H; try discriminate; inversion H; subst; (apply my_inv_set_x; [l3_tac | exact MI]).
Qed.

Lemma eu_read8_inv : forall labels ord cycle y i e addrs y' e' o,
  eu_read8 labels ord cycle y i e addrs = Ok (y', e', o) -> my_inv y -> my_inv y'.
Proof.
  intros labels ord cycle y i e addrs y' e' o H MI. unfold eu_read8 in H.
  destruct (nth_error (y_ccs y) i) as [c|] eqn:EN; [|discriminate].
  apply bind_ok in H as ([[w c1] res] & ER & H). cbv zeta in H.
  pose proof MI as (MW & FC & FS).
  assert (CC : cc_ok c) by (rewrite Forall_forall in FC; apply FC; eapply nth_error_In; eauto).
  destruct (cc_read_cycle_ok _ _ _ _ _ _ ER MW CC) as (MW1 & CC1 & K1 & S1).
  assert (MI1 : my_inv (put_cc (put_mw y w) i c1)).
  { unfold my_inv. rewrite mw_of_put. change (y_ccs (put_cc (put_mw y w) i c1)) with (set_nth6 (y_ccs y) i c1).
    eapply mem_inv_upd; [exact MI | exact EN | exact MW1 | exact CC1 | exact K1 | exact S1 |].
    eapply cc_read_cycle_id; eauto. }
  destruct res as [d|].
  - eapply eu_run8_inv; eauto.
  - inversion H; subst. exact MI1.
Qed.

Lemma eu_prepare8_inv : forall labels ord cycle y i e y' e' o,
  eu_prepare8 labels ord cycle y i e = Ok (y', e', o) -> my_inv y -> my_inv y'.
Proof.
  intros labels ord cycle y i e y' e' o H MI. unfold eu_prepare8 in H. cbv zeta in H.
  destruct (negb _); [inversion H; subst; exact MI|].
  destruct (h_runner e) as [r|]; [|discriminate].
  match type of H with context [match ?rcv with Some _ => _ | None => _ end] =>
    destruct rcv as [[x0 r1]|] eqn:ER end; [|inversion H; subst; exact MI].
  assert (HX : l3x x0 = l3x (y_x y)).
  { destruct (q_recv r); [|inversion ER; reflexivity].
    destruct (aget z (x_chan (y_x y))); [|discriminate]. inversion ER; reflexivity. }
  assert (MI1 : my_inv (set_x y (bu_assert3 x0 (q_r r1)))).
  { apply my_inv_set_x; [rewrite bu_assert3_l3; exact HX | exact MI]. }
  destruct (instr_MemoryRead _ _ _).
  - eapply eu_run8_inv; eauto.
  - eapply eu_read8_inv; eauto.
Qed.

Lemma eu_cycle8_inv : forall labels ord cycle y i e y' e' o,
  eu_cycle8 labels ord cycle y i e = Ok (y', e', o) -> my_inv y -> my_inv y'.
Proof.
  intros labels ord cycle y i e y' e' o H MI. unfold eu_cycle8 in H. cbv zeta in H.
  match type of H with (if ?pre then _ else _) = _ => destruct pre end.
  - destruct (eu_pending8 y e); [discriminate|].
    apply bind_ok in H as ([y1 e1] & EF & H). inversion H; subst. eapply eu_flush8_inv; eauto.
  - destruct (h_co e).
    + destruct (pick8 _ _ _) as [[r q']|]; [|inversion H; subst; exact MI].
      eapply eu_prepare8_inv; [exact H|]. apply my_inv_set_x; [reflexivity | exact MI].
    + eapply eu_prepare8_inv; eauto.
    + eapply eu_read8_inv; eauto.
    + eapply eu_write8_inv; eauto.
Qed.

Lemma eus_main8_inv : forall labels ord cycle eus y i acc y' eus' o,
  eus_main8 labels ord cycle y i eus acc = Ok (y', eus', o) -> my_inv y -> my_inv y'.
Proof.
  intros labels ord cycle. induction eus as [|e t IH]; intros y i acc y' eus' o H MI; cbn [eus_main8] in H.
  - inversion H; subst. exact MI.
  - apply bind_ok in H as ([[y1 e1] o1] & E1 & H). apply eu_cycle8_inv in E1; [|exact MI].
    destruct (y_err o1).
    + inversion H; subst. exact E1.
    + cbv zeta in H. apply bind_ok in H as ([[y2 t'] acc2] & E2 & H). inversion H; subst.
      eapply IH; eauto.
Qed.

Lemma eus_drain8_inv : forall labels ord cycle eus y i y' eus' er,
  eus_drain8 labels ord cycle y i eus = Ok (y', eus', er) -> my_inv y -> my_inv y'.
Proof.
  intros labels ord cycle. induction eus as [|e t IH]; intros y i y' eus' er H MI; cbn [eus_drain8] in H.
  - inversion H; subst. exact MI.
  - destruct (eu_empty8 e).
    + apply bind_ok in H as ([[y2 t'] er2] & E2 & H). inversion H; subst. eapply IH; eauto.
    + apply bind_ok in H as ([[y1 e1] o1] & E1 & H). apply eu_cycle8_inv in E1; [|exact MI].
      destruct (y_err o1).
      * inversion H; subst. exact E1.
      * apply bind_ok in H as ([[y2 t'] er2] & E2 & H). inversion H; subst. eapply IH; eauto.
Qed.

Lemma eus_flush8_inv : forall labels ord from eus y i acc y' eus' acc',
  eus_flush8 labels ord from y i eus acc = Ok (y', eus', acc') -> my_inv y -> my_inv y'.
Proof.
  intros labels ord from. induction eus as [|e t IH]; intros y i acc y' eus' acc' H MI; cbn [eus_flush8] in H.
  - inversion H; subst. exact MI.
  - destruct (eu_empty8 e && negb (eu_pending8 y e)).
    + apply bind_ok in H as ([[y2 t'] acc2] & E2 & H). inversion H; subst. eapply IH; eauto.
    + apply bind_ok in H as ([[y1 e1] o1] & E1 & H). apply eu_cycle8_inv in E1; [|exact MI].
      destruct (y_err o1).
      * inversion H; subst. exact E1.
      * cbv zeta in H. apply bind_ok in H as ([[y2 t'] acc2] & E2 & H). inversion H; subst. eapply IH; eauto.
Qed.

Lemma eus_final8_inv : forall labels ord cycle eus y i y' eus' b,
  eus_final8 labels ord cycle y i eus = Ok (y', eus', b) -> my_inv y -> my_inv y'.
Proof.
  intros labels ord cycle. induction eus as [|e t IH]; intros y i y' eus' b H MI; cbn [eus_final8] in H.
  - inversion H; subst. exact MI.
  - cbv zeta in H.
    match type of H with (if ?cond then _ else _) = _ => destruct cond end.
    + apply bind_ok in H as ([[y2 t'] b2] & E2 & H). inversion H; subst. eapply IH; eauto.
    + destruct (nth_error (y_ccs y) i); [|discriminate].
      apply bind_ok in H as ([[y1 e1] o1] & E1 & H). apply eu_cycle8_inv in E1; [|exact MI].
      apply bind_ok in H as ([[y2 t'] b2] & E2 & H). inversion H; subst. eapply IH; eauto.
Qed.

Lemma eus_flush_all8_inv : forall eus y i y' eus', eus_flush_all8 y i eus = Ok (y', eus') -> my_inv y -> my_inv y'.
Proof.
  induction eus as [|e t IH]; intros y i y' eus' H MI; cbn [eus_flush_all8] in H.
  - inversion H; subst. exact MI.
  - apply bind_ok in H as ([y1 e1] & E1 & H). apply eu_flush8_inv in E1; [|exact MI].
    apply bind_ok in H as ([y2 t'] & E2 & H). cbn [fst snd] in *. inversion H; subst. eapply IH; eauto.
Qed.

(* ---------- cpu.go ---------- *)

Lemma ret_check8_inv : forall s s', ret_check8 s = VCont s' -> my_inv (v_y s) -> my_inv (v_y s').
Proof.
  intros s s' H MI. unfold ret_check8 in H.
  match type of H with (if ?cond then _ else _) = _ => destruct cond end; inversion H; subst; exact MI.
Qed.

Lemma flush_advance8_inv : forall s k seq pc from empty s',
  flush_advance8 s k seq pc from empty = VCont s' -> my_inv (v_y s) -> my_inv (v_y s').
Proof.
  intros s k seq pc from empty s' H MI. unfold flush_advance8 in H.
  destruct (flush_next _ _ _) as [k'|]; [inversion H; subst; exact MI|].
  destruct empty; [|inversion H; subst; exact MI].
  cbv zeta in H. apply res_of8_cont in H as ([y1 eus1] & EF & H). inversion H; subst. cbn [fst v_y].
  eapply eus_flush_all8_inv; [exact EF|]. apply my_inv_set_x; [apply do_flush3_l3 | exact MI].
Qed.

Lemma back8_inv : forall s cycle y eus1 o s', back8 s cycle (y, eus1, o) = VCont s' -> my_inv y -> my_inv (v_y s').
Proof.
  intros s cycle y eus1 o s' H MI. unfold back8 in H.
  destruct (y_err o); [discriminate|].
  apply res_of8_cont in H as ([x1 wus1] & EW & H). cbv zeta in H. cbn [fst snd] in H.
  assert (MI1 : my_inv (set_x y x1)) by (apply my_inv_set_x; [eapply wus_cycle8_l3; exact EW | exact MI]).
  destruct (y_ret o).
  - apply ret_check8_inv in H; [exact H|]. cbn [v_y]. apply wbus_connect8_inv. exact MI1.
  - destruct (y_flush o); [inversion H; subst; exact MI1|].
    destruct (is_empty8 _ _ _); inversion H; subst; exact MI1.
Qed.

Lemma after_snoops8_inv : forall labels ord s y s', after_snoops8 labels ord s y = VCont s' -> my_inv y -> my_inv (v_y s').
Proof.
  intros labels ord s y s' H MI. unfold after_snoops8 in H.
  destruct (v_mode s) as [| |seq pc from|k seq pc from empty|] eqn:EM.
  - cbv zeta in H. apply res_of8_cont in H as ([[y3 eus1] o] & E3 & H). apply eus_main8_inv in E3; [|exact MI].
    eapply back8_inv; eauto.
  - apply res_of8_cont in H as ([[y2 eus1] er] & E2 & H). apply eus_drain8_inv in E2; [|exact MI].
    destruct er; [discriminate|].
    apply res_of8_cont in H as ([x1 wus1] & EW & H). cbv zeta in H.
    apply ret_check8_inv in H; [exact H|]. cbn [v_y fst]. apply wbus_connect8_inv.
    apply my_inv_set_x; [eapply wus_cycle8_l3; exact EW | exact E2].
  - cbv zeta in H. apply res_of8_cont in H as ([[y2 eus1] acc] & E2 & H). apply eus_flush8_inv in E2; [|exact MI].
    destruct (a_err acc); [discriminate|].
    apply flush_advance8_inv in H; [exact H|]. cbn [v_y]. apply wbus_connect8_inv. exact E2.
  - discriminate.
  - cbv zeta in H. apply res_of8_cont in H as ([[y2 eus1] busy] & E2 & H). apply eus_final8_inv in E2; [|exact MI].
    destruct (_ && _) in H; [discriminate|]. inversion H; subst. exact E2.
Qed.

Lemma snoops_then_inv : forall labels ord cycle s y s',
  res_of8 (y_os y) (snoops8 ord cycle y) (after_snoops8 labels ord s) = VCont s' ->
  y_os (v_y s') = false -> my_inv y -> my_inv (v_y s').
Proof.
  intros labels ord cycle s y s' H HO MI.
  apply res_of8_cont in H as (y2 & E2 & H).
  pose proof (after_snoops8_os labels ord s y2) as OS. rewrite H in OS. cbn [res_os8] in OS.
  eapply after_snoops8_inv; [exact H|]. eapply snoops8_inv; [exact E2 | congruence | exact MI].
Qed.

Theorem step8_inv : forall app labels ord s s',
  step8 app labels ord s = VCont s' -> y_os (v_y s') = false -> my_inv (v_y s) -> my_inv (v_y s').
Proof.
  intros app labels ord s s' H HO MI. rewrite step8_eq in H.
  destruct (v_mode s) as [| |seq pc from|k seq pc from empty|] eqn:EM.
  - apply res_of8_cont in H as (y1 & E1 & H). apply front8_inv in E1; [|exact MI].
    eapply snoops_then_inv; eauto.
  - eapply snoops_then_inv; eauto.
  - eapply snoops_then_inv; eauto.
  - destruct (nth_error (v_wus s) k) as [w|]; [|discriminate].
    apply res_of8_cont in H as ([x1 w1] & EW & H).
    apply flush_advance8_inv in H; [exact H|]. cbn [v_y fst].
    apply my_inv_set_x; [eapply wu_cycle8_l3; exact EW | exact MI].
  - eapply snoops_then_inv; eauto.
Qed.

Lemma snoop_arg8_inv : forall app ord s cycle y, snoop_arg8 app ord s = Some (cycle, y) -> my_inv (v_y s) -> my_inv y.
Proof.
  intros app ord s cycle y H MI. unfold snoop_arg8 in H.
  destruct (v_mode s).
  - destruct (front8 app ord (v_cycle s + 1) (v_y s)) as [y1| |] eqn:E; try discriminate.
    inversion H; subst. eapply front8_inv; eauto.
  - inversion H; subst. exact MI.
  - inversion H; subst. exact MI.
  - discriminate.
  - inversion H; subst. exact MI.
Qed.

Lemma new_cache_wf : forall n m c, new_cache n m = Ok c -> wf_cache n c.
Proof.
  intros n m c H. unfold new_cache in H. destruct (n =? 0); [discriminate|].
  destruct (negb _); [discriminate|]. inversion H; subst. split; [reflexivity | constructor].
Qed.

Lemma cmds_ok_new : cmds_ok msi_new.
Proof. unfold cmds_ok, msi_new. cbn [k_cmds map]. repeat split; try constructor; intros ? ? []. Qed.

Lemma init8_inv : forall par ord app st s, init8 par ord app st = Ok s -> my_inv (v_y s).
Proof.
  intros par ord app st s H. unfold init8 in H.
  destruct (new_cache l1LineSize l1Size) as [ci| |]; try discriminate.
  destruct (new_cache l3LineSize8 l3Size8) as [c3| |] eqn:E3; try discriminate.
  destruct (new_cache l1dLineSize l1dSize) as [cd| |] eqn:ED; try discriminate.
  cbv zeta in H. inversion H; subst. unfold my_inv, mem_inv, mw_of. cbn [v_y y_x y_msi y_ccs x_m m_mem m_l3].
  apply new_cache_wf in E3. apply new_cache_wf in ED.
  split; [split; [exact E3 | exact cmds_ok_new]|].
  split.
  - apply Forall_forall. intros c I. apply in_map_iff in I as (n & <- & _).
    split; [exact ED | split; exact I].
  - apply Forall_forall. intros c I. apply in_map_iff in I as (n & <- & _).
    cbn [c_snoop]. split; constructor.
Qed.

Print Assumptions cc_read_cycle_ok.
Print Assumptions cc_write_cycle_ok.
Print Assumptions cc_flush_inv.
Print Assumptions sn_run_inv.
Print Assumptions cc_snoop_cycle_inv.
Print Assumptions cc_snoop_cycle_inv_weak.
Print Assumptions snoops_cycle_inv.
Print Assumptions step8_inv.
Print Assumptions snoop_arg8_inv.
Print Assumptions init8_inv.
