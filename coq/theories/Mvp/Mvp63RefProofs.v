(* Refinement of MVP-6.3 to the sequential machine on single-assignment, register-only,
   straight-line programs - part 3: what is proved, examples, refutations.

   INTENDED THEOREM (not proved in full; see PARTIAL RESULTS below):
     mvp63_refines_seq_ssa_straight :
       forall app labels, wf_app app -> straight app = true -> reg_only app = true ->
       ssa app = true -> regs_ok app = true ->
       forall par ord fuel st st' tr, (1 <= par)%nat ->
       Forall int32 (regs st) -> length (regs st) = 32%nat -> nth 0 (regs st) 0 = 0 ->
       seq_run fuel (map sinstr_of app) labels st = Done st' tr ->
       exists c, forall fuel', (bound (length app) <= fuel')%nat ->
         mvp63_run_os par ord fuel' app labels st = (MDone c st', false).

   PARTIAL RESULTS (Mvp63RefInv.v), all for every program of the class, every order function, every
   state that satisfies the back-end invariant BI dp d xe w pend prev x
   (w <= xe <= d instructions written back / executed / dispatched; execute bus = runners xe..d-1,
   write bus = results w..xe-1, scoreboards = counts of w..d-1, alias tables = sequential register
   file after w instructions, channel discipline RecvOK / FwdOK, ghost flag clear):
     cu_cycle_ok      controlUnit.cycle keeps BI (and the front-end invariant FrontI of MVP-6.0's
                      proof), dispatches in order, at most through ONE RAW hazard with a forwarding
                      channel from the unique earlier writer, never through a WAW / WAR hazard (there
                      is none), keeps the ghost flag clear (the forwarding source is unique), and
                      dispatches the head of the stream when nothing is in flight (progress);
     head_operands    the instruction at the head of the execute bus reads, through registerRead with
                      the forward field it received (head_fw), exactly its SEQUENTIAL operands, and
                      Runner.Run returns the sequential execution record;
     wu_take_ok       a write unit that takes the oldest result keeps BI with w + 1;
     handle_ok, BI_push, BI_mark   the cases of handleRunner.
   MISSING for the intended theorem: the execute units at machine level (eu_cycle3 on the head:
   unfolding + head_operands + the channel updates), the loops over the units, the bridge
   du_cycle3 = du_cycle6 (+ cleared forward fields), one tick of Run (timing invariant as TI of
   Mvp60RefStep.v: idle execute units and empty write-bus queue between ticks), RATCommit / RATFlush
   at the end (Comp/RatProofs.fold_rat_write_read), the potential for termination. *)
From Coq Require Import ZArith List Bool Lia.
From Maj Require Import Base.Outcome Base.GoInt Base.GoTypes Isa.Spec Isa.Seq Isa.Refine Gen.Opcodes.
From Maj Require Import Mvp.Mvp12 Mvp.Mvp12Proofs Mvp.Mvp4Skel Mvp.Mvp60 Mvp.Mvp60RefDefs Mvp.Mvp63 Mvp.Mvp63Proofs
     Mvp.Mvp63RefDefs Mvp.Mvp63RefInv.
Import ListNotations.
Open Scope Z_scope.

(* the control unit keeps the ghost flag clear on the class *)
Corollary cu_cycle_os_clear app labels regs0 mem0 ord :
  straight app = true -> ssa app = true -> regs_ok app = true -> length regs0 = 32%nat ->
  (forall k, (0 <= k <= stop_from app 0)%nat -> (k < length app)%nat ->
     exec (sinstr_of (Mvp60RefSem.ik app k)) (rget (Mvp60RefSem.sreg app labels regs0 0 k)) labels (Mvp60RefSem.pcz k) [] =
       Ok (Mvp60RefSem.eff app labels regs0 0 k) /\
     (forall a, Mvp60RefBack.etarget (Mvp60RefSem.eff app labels regs0 0 k) = Some a ->
        exists t, a = Mvp60RefSem.pcz t /\ (k < t <= length app)%nat)) ->
  forall cy dp d xe w c f x,
    BI app labels regs0 mem0 dp d xe w (x_pend x) (x_prev x) x ->
    Mvp60RefStep.FrontI app 0 (d + length (x_pend x)) c f cy (x_m x) -> m_cu (x_m x) = [] -> BusOK cy (x_ebus x) ->
    x_os (cu_cycle3 ord cy x) = false.
Proof.
  intros Hstr Hssa Hrng Hl Hsem cy dp d xe w c f x HB HF Hcu Hbus.
  destruct (cu_cycle_ok app labels regs0 mem0 ord Hstr Hssa Hrng Hl Hsem cy dp d xe w c f x HB HF Hcu Hbus) as (lp & HB' & _).
  exact (bi_os _ _ _ _ _ _ _ _ _ _ _ HB').
Qed.

(* ------------------------------------------------------------------ *)
(* example: 14 instructions, chained RAW dependences, single assignment *)

Definition ex63_prog : list sinstr :=
  [SLi 5 3; SAddi 6 5 1; SAdd 7 5 6; SLi 8 9; SMul 9 7 8; SAddi 10 9 2;
   SSub 11 10 8; SLi 12 1; SAdd 13 12 11; SMv 14 13; SXor 15 14 6; SAddi 16 15 1; SSlli 17 16 2; SOr 18 17 5].
Definition zero32 : arch := mk_arch (repeat 0 32) (repeat 0 64).

Example mvp63_ssa_example :
  let app := map instr_of ex63_prog in
  straight app = true /\ reg_only app = true /\ ssa app = true /\ regs_ok app = true /\
  exists st' tr,
    seq_run 100 (map sinstr_of app) no_labels zero32 = Done st' tr /\ length tr = 14%nat /\
    mvp63_run_os 1 ord_asc 3000 app no_labels zero32 = (MDone 333 st', false) /\
    mvp63_run_os 2 ord_asc 3000 app no_labels zero32 = (MDone 332 st', false) /\
    mvp63_run_os 3 ord_asc 3000 app no_labels zero32 = (MDone 332 st', false) /\
    mvp63_run_os 4 ord_asc 3000 app no_labels zero32 = (MDone 332 st', false) /\
    mvp63_run_os 3 ord_desc 3000 app no_labels zero32 = (MDone 332 st', false) /\
    rget (regs st') 9 = 63 /\ rget (regs st') 13 = 57 /\ rget (regs st') 18 = 251 /\ (14 + 1) / 2 <= 332.
Proof.
  cbv zeta. split; [vm_compute; reflexivity|]. split; [vm_compute; reflexivity|]. split; [vm_compute; reflexivity|].
  split; [vm_compute; reflexivity|]. do 2 eexists. split; [vm_compute; reflexivity|].
  repeat (split; [vm_compute; reflexivity|]). vm_compute. discriminate.
Qed.

(* with the ghost flag clear the result is the same for EVERY iteration order of Go's maps
   (mvp63_ord_irrelevant) *)
Corollary mvp63_ssa_example_all_orders ord :
  ords_ok3 ord_asc ord ->
  exists st', mvp63_run_os 3 ord 3000 (map instr_of ex63_prog) no_labels zero32 = (MDone 332 st', false) /\
              rget (regs st') 18 = 251.
Proof.
  intros Ho. destruct mvp63_ssa_example as (_ & _ & _ & _ & st' & tr & _ & _ & _ & _ & H3 & _ & _ & _ & _ & R18 & _).
  exists st'. split; [|exact R18]. exact (mvp63_ord_irrelevant 3 3000 _ no_labels zero32 ord_asc ord _ Ho H3).
Qed.

(* ------------------------------------------------------------------ *)
(* why the hypotheses on the initial registers are there               *)

(* nth 0 regs = 0: registerRead looks x0 up in the alias tables as soon as a forward field is set;
   li x5,1 ; add x6,x5,x0 with regs[0] = 7: expected x6 = 1 *)
Example mvp63_x0_nonzero_refuted :
  let p := [SLi 5 1; SAdd 6 5 0] in
  let st := mk_arch (7 :: repeat 0 31) (repeat 0 64) in
  ssa (map instr_of p) = true /\ regs_ok (map instr_of p) = true /\
  exists st' tr c st6,
    seq_run 10 p no_labels st = Done st' tr /\ mvp63_run 1 ord_asc 3000 (map instr_of p) no_labels st = MDone c st6 /\
    nth 6 (regs st') 0 = 1 /\ nth 6 (regs st6) 0 = 8.
Proof.
  cbv zeta. split; [vm_compute; reflexivity|]. split; [vm_compute; reflexivity|].
  do 4 eexists. split; [vm_compute; reflexivity|]. split; [vm_compute; reflexivity|]. vm_compute. split; reflexivity.
Qed.

(* ... and a write to x0 reaches ctx.Registers[0] through RATFlush: addi x0,x0,5 with regs[0] = 7 *)
Example mvp63_x0_write_refuted :
  let p := [SAddi 0 0 5] in
  let st := mk_arch (7 :: repeat 0 31) (repeat 0 64) in
  exists st' tr c st6,
    seq_run 10 p no_labels st = Done st' tr /\ mvp63_run 1 ord_asc 3000 (map instr_of p) no_labels st = MDone c st6 /\
    nth 0 (regs st') 0 = 7 /\ nth 0 (regs st6) 0 = 0.
Proof. cbv zeta. do 4 eexists. split; [vm_compute; reflexivity|]. split; [vm_compute; reflexivity|]. vm_compute. split; reflexivity. Qed.

(* length regs = 32: the alias table holds a register the (short) register file of the sequential
   machine does not have; li x7,3 ; nop x 4 ; addi x2,x7,1 with five registers: expected x2 = 1 *)
Example mvp63_short_regfile_refuted :
  let p := [SLi 7 3; SNop; SNop; SNop; SNop; SAddi 2 7 1] in
  let st := mk_arch (repeat 0 5) (repeat 0 64) in
  ssa (map instr_of p) = true /\
  exists st' tr c st6,
    seq_run 10 p no_labels st = Done st' tr /\ mvp63_run 1 ord_asc 3000 (map instr_of p) no_labels st = MDone c st6 /\
    nth 2 (regs st') 0 = 1 /\ nth 2 (regs st6) 0 = 4.
Proof.
  cbv zeta. split; [vm_compute; reflexivity|].
  do 4 eexists. split; [vm_compute; reflexivity|]. split; [vm_compute; reflexivity|]. vm_compute. split; reflexivity.
Qed.

(* ------------------------------------------------------------------ *)
(* the class boundary: a register-only straight-line program that is NOT single-assignment *)

(* li a5,2 ; li a5,92 ; addi t0,a5,1 - a5 is written twice (WAW), three instructions, no load.
   STALE FORWARDING: the dispatch cycles are [li1] | [li2 (through the WAW hazard, "renamed"), addi]; the addi
   has exactly one RAW hazard register, pushedRunnersInPreviousCycle = {li1}, so it is forwarded 2 from li1
   although li2 was dispatched just before it in the SAME cycle: t0 = 3 instead of 93, at EVERY number of
   units, for both iteration orders, and with the ghost flag CLEAR (only one previous-cycle writer qualifies:
   this is not the map-order ambiguity of Mvp63Proofs.forward_order).  No two-instruction program fails and no
   program with only WAW / WAR hazards fails without a load (exhaustive search over small alphabets, execution
   and write-back being in order on register-only programs), so the boundary of the class is sharp. *)
Definition waw3_prog : list instr := [I_li (mk_li 15 2); I_li (mk_li 15 92); I_addi (mk_addi 1 5 15)].
Example mvp63_non_ssa_regonly_refuted :
  straight waw3_prog = true /\ reg_only waw3_prog = true /\ regs_ok waw3_prog = true /\ ssa waw3_prog = false /\
  exists st' tr,
    seq_run 10 (map sinstr_of waw3_prog) no_labels (st_of [] []) = Done st' tr /\ nth 5 (regs st') 0 = 93 /\
    map (fun par => (reg_of (mvp63_run par ord_asc 3000 waw3_prog no_labels (st_of [] [])) 5,
                     reg_of (mvp63_run par ord_desc 3000 waw3_prog no_labels (st_of [] [])) 5)) [1%nat; 2%nat; 3%nat; 4%nat]
    = [(Some 3, Some 3); (Some 3, Some 3); (Some 3, Some 3); (Some 3, Some 3)] /\
    snd (mvp63_run_os 1 ord_asc 3000 waw3_prog no_labels (st_of [] [])) = false.
Proof.
  split; [vm_compute; reflexivity|]. split; [vm_compute; reflexivity|]. split; [vm_compute; reflexivity|]. split; [vm_compute; reflexivity|].
  do 2 eexists. split; [vm_compute; reflexivity|]. vm_compute. repeat split; reflexivity.
Qed.

(* with a nop in front both li are dispatched in ONE cycle and the forwarding source is whichever of them comes
   first in Go's map pushedRunnersInPreviousCycle: wrong (3) with one order, right (93) with the other, at every
   number of units, ghost flag raised (Mvp63Proofs.forward_order) *)
Example mvp63_non_ssa_order_dependent :
  ssa fwd_prog = false /\
  map (fun par => (reg_of (mvp63_run par ord_asc 3000 fwd_prog no_labels (st_of [] [])) 5,
                   reg_of (mvp63_run par ord_desc 3000 fwd_prog no_labels (st_of [] [])) 5)) [1%nat; 2%nat; 3%nat; 4%nat]
  = [(Some 3, Some 93); (Some 3, Some 93); (Some 3, Some 93); (Some 3, Some 93)].
Proof. split; vm_compute; reflexivity. Qed.

Print Assumptions cu_cycle_os_clear.
Print Assumptions mvp63_ssa_example_all_orders.
