(* Refinement of MVP-6.3 to the sequential machine on single-assignment, register-only,
   straight-line programs - part 6: the theorems, examples, refutations.

   PROVED (this file, section Straight63), for every app with wf_app, straight, reg_only, ssa, regs_ok, every
   initial state with 32 int32 registers and x0 = 0, every par >= 1, EVERY order function ord (Go's map
   iteration orders), whenever seq_run ... = Done st' tr:
     mvp63_run_ssa_straight              exists c, forall fuel' >= fuel_bound63 (length app),
                                           mvp63_run_os par ord fuel' app labels st = (MDone c st', false)
                                         and length tr <= 2 * c          (fuel_bound63 n = 400 n + 1600 ticks)
     mvp63_refines_seq_ssa_straight      the same for mvp63_run
     mvp63_ghost_clear_ssa_straight      the ghost flag is clear on the whole run
     mvp63_deterministic_ssa_straight    any two orders give the sequential state; the same cycle count when
                                         they are related by ords_ok3 (Mvp63Proofs.mvp63_ord_irrelevant)
     mvp63_cycles_lower_bound_ssa_straight   whenever the model finishes: st', ceil(executed / 2) <= cycles
     mvp63_terminates_ssa_straight, mvp63_no_panic_ssa_straight
     mvp63_ssa_example_any               the 14-instruction example as an instance: any par, any ord.

   Structure of the proof
     Mvp63RefDefs.v   the class (ssa, regs_ok), tv / view: what the alias tables hold after w write-backs
     Mvp63RefInv.v    the back-end invariant BI (35 fields) and the control unit (cu_cycle_ok), head_operands,
                      wu_take_ok
     Mvp63RefExec.v   executeUnit.Cycle on the head of the execute bus (eu_head_eq: receive, run with the
                      sequential operands, send, push), BI afterwards (BI_exec_head), the loops over the execute
                      units (eus_main_plain, eus_main_ret, eus_drain_idle) and the write units (wus_ok3)
     Mvp63RefRat.v    InitRAT (init_rat_read), RATCommit ; RATFlush (commit_flush, finish3_ok)
     Mvp63RefStep.v   du_cycle3 = du_cycle6 while ctx.sequenceID = 0 and the forward fields are clear (fd_ok3 on top
                      of Mvp60RefStep.fd_ok), the Connect calls, the invariants G3 (main loop: FrontI of the
                      MVP-6.0 proof + BI + idle units / empty write-bus queue between ticks) and GR3 (drain loop
                      after ret), the potential phi3, one tick in either loop (step_normal3, step_ret3), seg_run3
     this file        initial state (init3_G3), the theorems; the sequential side is Mvp60RefSeg.seg_seq_fin.

   THE EXTENSION to forward control flow (branches / jumps strictly ahead, no div / rem / jalr) on single-assignment
   programs, the analogue of mvp61_refines_seq_forward, is PROVED in Mvp63RefFwdDefs.v, Mvp63RefFwdRat.v, Mvp63RefFwdFront.v,
   Mvp63RefFwdInv.v, Mvp63RefFwdExec.v, Mvp63RefFwdStep.v, Mvp63RefFwdFlush.v, Mvp63RefFwdProofs.v, Mvp63RefFwdThm.v
   (mvp63_refines_seq_ssa_forward; Props/C01_mvp63_fwd.v).  What it added to this development:
     - BI with ctx.sequenceID = sq > 0 (tags pcz k + 1000 sq) and a base index (BIq), pendingConditionalBranch = true only
       while a conditional branch is on the execute bus, a second branch never dispatched in the same cycle;
     - the alias tables across RATCommit / RATRollback (TabOK: what registerRead sees is the sequential file after the
       written-back instructions; every tag in transactionRAT is older than the branch, so FindValues keeps all of it);
     - the shadow executed in the same tick behind a taken branch (its result waits in the write-bus buffer with a larger
       tag and is dropped by the write unit of the flush loop), the two flush loops, do_flush3, a Fresh3 state per segment
       and the segment induction of Mvp61RefProofs.fwd_core1.
   The straight-line development below is kept as it is (it also gives the cycle bounds). *)
From Coq Require Import ZArith List Bool Lia.
From Maj Require Import Base.Outcome Base.GoInt Base.GoTypes Isa.Spec Isa.Seq Isa.Refine Gen.Opcodes.
From Maj Require Import Gen.Latency Comp.Cache Comp.Rat Comp.RatProofs.
From Maj Require Import Mvp.Mvp12 Mvp.Mvp12Proofs Mvp.Mvp3 Mvp.Mvp3Proofs Mvp.Mvp4Skel Mvp.Mvp60 Mvp.Mvp60Proofs Mvp.Mvp60RefSem Mvp.Mvp60RefDefs
     Mvp.Mvp60RefFront Mvp.Mvp60RefBack Mvp.Mvp60RefStep Mvp.Mvp60RefStep2 Mvp.Mvp60RefSeg Mvp.Mvp60RefProofs
     Mvp.Mvp63 Mvp.Mvp63Proofs Mvp.Mvp63RefDefs Mvp.Mvp63RefInv Mvp.Mvp63RefExec Mvp.Mvp63RefRat Mvp.Mvp63RefStep.
Import ListNotations.
Open Scope Z_scope.

(* the control unit keeps the ghost flag clear on the class *)
Corollary cu_cycle_os_clear app labels regs0 mem0 ord :
  straight app = true -> ssa app = true -> regs_ok app = true -> length regs0 = 32%nat ->
  (forall k, (0 <= k <= stop_from app 0)%nat -> (k < length app)%nat ->
     exec (sinstr_of (Mvp60RefSem.ik app k)) (rget (Mvp60RefSem.sreg app labels regs0 0 k)) labels (Mvp60RefSem.pcz k) [] =
       Ok (Mvp60RefSem.eff app labels regs0 0 k) /\
     (forall a, Mvp60RefBack.etarget (Mvp60RefSem.eff app labels regs0 0 k) = Some a ->
        exists t, a = Mvp60RefSem.pcz t /\ (k < t <= length app)%nat)) ->
  forall cy dp d xe w c f x,
    BI app labels regs0 mem0 dp d xe w (x_pend x) (x_prev x) x ->
    Mvp60RefStep.FrontI app 0 (d + length (x_pend x)) c f cy (x_m x) -> m_cu (x_m x) = [] -> BusOK cy (x_ebus x) ->
    x_os (cu_cycle3 ord cy x) = false.
Proof.
  intros Hstr Hssa Hrng Hl Hsem cy dp d xe w c f x HB HF Hcu Hbus.
  destruct (cu_cycle_ok app labels regs0 mem0 ord Hstr Hssa Hrng Hl Hsem cy dp d xe w c f x HB HF Hcu Hbus) as (lp & HB' & _).
  exact (bi_os _ _ _ _ _ _ _ _ _ _ _ HB').
Qed.

(* ------------------------------------------------------------------ *)
(* example: 14 instructions, chained RAW dependences, single assignment *)

Definition ex63_prog : list sinstr :=
  [SLi 5 3; SAddi 6 5 1; SAdd 7 5 6; SLi 8 9; SMul 9 7 8; SAddi 10 9 2;
   SSub 11 10 8; SLi 12 1; SAdd 13 12 11; SMv 14 13; SXor 15 14 6; SAddi 16 15 1; SSlli 17 16 2; SOr 18 17 5].
Definition zero32 : arch := mk_arch (repeat 0 32) (repeat 0 64).

Example mvp63_ssa_example :
  let app := map instr_of ex63_prog in
  straight app = true /\ reg_only app = true /\ ssa app = true /\ regs_ok app = true /\
  exists st' tr,
    seq_run 100 (map sinstr_of app) no_labels zero32 = Done st' tr /\ length tr = 14%nat /\
    mvp63_run_os 1 ord_asc 3000 app no_labels zero32 = (MDone 333 st', false) /\
    mvp63_run_os 2 ord_asc 3000 app no_labels zero32 = (MDone 332 st', false) /\
    mvp63_run_os 3 ord_asc 3000 app no_labels zero32 = (MDone 332 st', false) /\
    mvp63_run_os 4 ord_asc 3000 app no_labels zero32 = (MDone 332 st', false) /\
    mvp63_run_os 3 ord_desc 3000 app no_labels zero32 = (MDone 332 st', false) /\
    rget (regs st') 9 = 63 /\ rget (regs st') 13 = 57 /\ rget (regs st') 18 = 251 /\ (14 + 1) / 2 <= 332.
Proof.
  cbv zeta. split; [vm_compute; reflexivity|]. split; [vm_compute; reflexivity|]. split; [vm_compute; reflexivity|].
  split; [vm_compute; reflexivity|]. do 2 eexists. split; [vm_compute; reflexivity|].
  repeat (split; [vm_compute; reflexivity|]). vm_compute. discriminate.
Qed.

(* with the ghost flag clear the result is the same for EVERY iteration order of Go's maps
   (mvp63_ord_irrelevant) *)
Corollary mvp63_ssa_example_all_orders ord :
  ords_ok3 ord_asc ord ->
  exists st', mvp63_run_os 3 ord 3000 (map instr_of ex63_prog) no_labels zero32 = (MDone 332 st', false) /\
              rget (regs st') 18 = 251.
Proof.
  intros Ho. destruct mvp63_ssa_example as (_ & _ & _ & _ & st' & tr & _ & _ & _ & _ & H3 & _ & _ & _ & _ & R18 & _).
  exists st'. split; [|exact R18]. exact (mvp63_ord_irrelevant 3 3000 _ no_labels zero32 ord_asc ord _ Ho H3).
Qed.

(* ------------------------------------------------------------------ *)
(* why the hypotheses on the initial registers are there               *)

(* nth 0 regs = 0: registerRead looks x0 up in the alias tables as soon as a forward field is set;
   li x5,1 ; add x6,x5,x0 with regs[0] = 7: expected x6 = 1 *)
Example mvp63_x0_nonzero_refuted :
  let p := [SLi 5 1; SAdd 6 5 0] in
  let st := mk_arch (7 :: repeat 0 31) (repeat 0 64) in
  ssa (map instr_of p) = true /\ regs_ok (map instr_of p) = true /\
  exists st' tr c st6,
    seq_run 10 p no_labels st = Done st' tr /\ mvp63_run 1 ord_asc 3000 (map instr_of p) no_labels st = MDone c st6 /\
    nth 6 (regs st') 0 = 1 /\ nth 6 (regs st6) 0 = 8.
Proof.
  cbv zeta. split; [vm_compute; reflexivity|]. split; [vm_compute; reflexivity|].
  do 4 eexists. split; [vm_compute; reflexivity|]. split; [vm_compute; reflexivity|]. vm_compute. split; reflexivity.
Qed.

(* ... and a write to x0 reaches ctx.Registers[0] through RATFlush: addi x0,x0,5 with regs[0] = 7 *)
Example mvp63_x0_write_refuted :
  let p := [SAddi 0 0 5] in
  let st := mk_arch (7 :: repeat 0 31) (repeat 0 64) in
  exists st' tr c st6,
    seq_run 10 p no_labels st = Done st' tr /\ mvp63_run 1 ord_asc 3000 (map instr_of p) no_labels st = MDone c st6 /\
    nth 0 (regs st') 0 = 7 /\ nth 0 (regs st6) 0 = 0.
Proof. cbv zeta. do 4 eexists. split; [vm_compute; reflexivity|]. split; [vm_compute; reflexivity|]. vm_compute. split; reflexivity. Qed.

(* length regs = 32: the alias table holds a register the (short) register file of the sequential
   machine does not have; li x7,3 ; nop x 4 ; addi x2,x7,1 with five registers: expected x2 = 1 *)
Example mvp63_short_regfile_refuted :
  let p := [SLi 7 3; SNop; SNop; SNop; SNop; SAddi 2 7 1] in
  let st := mk_arch (repeat 0 5) (repeat 0 64) in
  ssa (map instr_of p) = true /\
  exists st' tr c st6,
    seq_run 10 p no_labels st = Done st' tr /\ mvp63_run 1 ord_asc 3000 (map instr_of p) no_labels st = MDone c st6 /\
    nth 2 (regs st') 0 = 1 /\ nth 2 (regs st6) 0 = 4.
Proof.
  cbv zeta. split; [vm_compute; reflexivity|].
  do 4 eexists. split; [vm_compute; reflexivity|]. split; [vm_compute; reflexivity|]. vm_compute. split; reflexivity.
Qed.

(* ------------------------------------------------------------------ *)
(* the class boundary: a register-only straight-line program that is NOT single-assignment *)

(* li a5,2 ; li a5,92 ; addi t0,a5,1 - a5 is written twice (WAW), three instructions, no load.
   STALE FORWARDING: the dispatch cycles are [li1] | [li2 (through the WAW hazard, "renamed"), addi]; the addi
   has exactly one RAW hazard register, pushedRunnersInPreviousCycle = {li1}, so it is forwarded 2 from li1
   although li2 was dispatched just before it in the SAME cycle: t0 = 3 instead of 93, at EVERY number of
   units, for both iteration orders, and with the ghost flag CLEAR (only one previous-cycle writer qualifies:
   this is not the map-order ambiguity of Mvp63Proofs.forward_order).  No two-instruction program fails and no
   program with only WAW / WAR hazards fails without a load (exhaustive search over small alphabets, execution
   and write-back being in order on register-only programs), so the boundary of the class is sharp. *)
Definition waw3_prog : list instr := [I_li (mk_li 15 2); I_li (mk_li 15 92); I_addi (mk_addi 1 5 15)].
Example mvp63_non_ssa_regonly_refuted :
  straight waw3_prog = true /\ reg_only waw3_prog = true /\ regs_ok waw3_prog = true /\ ssa waw3_prog = false /\
  exists st' tr,
    seq_run 10 (map sinstr_of waw3_prog) no_labels (st_of [] []) = Done st' tr /\ nth 5 (regs st') 0 = 93 /\
    map (fun par => (reg_of (mvp63_run par ord_asc 3000 waw3_prog no_labels (st_of [] [])) 5,
                     reg_of (mvp63_run par ord_desc 3000 waw3_prog no_labels (st_of [] [])) 5)) [1%nat; 2%nat; 3%nat; 4%nat]
    = [(Some 3, Some 3); (Some 3, Some 3); (Some 3, Some 3); (Some 3, Some 3)] /\
    snd (mvp63_run_os 1 ord_asc 3000 waw3_prog no_labels (st_of [] [])) = false.
Proof.
  split; [vm_compute; reflexivity|]. split; [vm_compute; reflexivity|]. split; [vm_compute; reflexivity|]. split; [vm_compute; reflexivity|].
  do 2 eexists. split; [vm_compute; reflexivity|]. vm_compute. repeat split; reflexivity.
Qed.

(* with a nop in front both li are dispatched in ONE cycle and the forwarding source is whichever of them comes
   first in Go's map pushedRunnersInPreviousCycle: wrong (3) with one order, right (93) with the other, at every
   number of units, ghost flag raised (Mvp63Proofs.forward_order) *)
Example mvp63_non_ssa_order_dependent :
  ssa fwd_prog = false /\
  map (fun par => (reg_of (mvp63_run par ord_asc 3000 fwd_prog no_labels (st_of [] [])) 5,
                   reg_of (mvp63_run par ord_desc 3000 fwd_prog no_labels (st_of [] [])) 5)) [1%nat; 2%nat; 3%nat; 4%nat]
  = [(Some 3, Some 93); (Some 3, Some 93); (Some 3, Some 93); (Some 3, Some 93)].
Proof. split; vm_compute; reflexivity. Qed.


(* ------------------------------------------------------------------ *)
(* the initial state                                                    *)

Definition fuel_bound63 (n : nat) : nat := (400 * n + 1600)%nat.

Lemma run3_more app labels ord : forall fuel k s r, run3_st fuel app labels ord s = inl r -> run3_st (fuel + k) app labels ord s = inl r.
Proof.
  induction fuel as [|fuel IH]; intros k s r H; [discriminate|]. cbn [run3_st Nat.add] in *.
  destruct (step3 app labels ord s); [exact H | apply IH; exact H].
Qed.

Lemma mvp63_run_os_more app labels par ord fuel k st c st' os :
  mvp63_run_os par ord fuel app labels st = (MDone c st', os) -> mvp63_run_os par ord (fuel + k) app labels st = (MDone c st', os).
Proof.
  unfold mvp63_run_os. destruct (init3 par ord app st) as [s0| |]; try discriminate.
  destruct (run3_st fuel app labels ord s0) as [r|s'] eqn:E; [|discriminate].
  intros H. rewrite (run3_more app labels ord _ k _ _ E). exact H.
Qed.

Section Init3.
  Variables (app : list instr) (labels : Z -> option Z) (ord : Z -> Z -> list Z -> list Z).

  (* NewCPU ; InitRAT: the invariant of the main loop with nothing dispatched *)
  Lemma init3_G3 par st : (1 <= par)%nat -> length (regs st) = 32%nat -> Forall int32 (regs st) ->
    exists s0, init3 par ord app st = Ok s0 /\ G3 app labels (regs st) (mem st) 0 0 0 0 0 0 s0 /\ t_cycle s0 = 0 /\
               mu3 app s0 < Z.of_nat (fuel_bound63 (length app)).
  Proof.
    intros Hpar Hlen Hr32.
    destruct (init_fresh app par st Hpar) as (s6 & E6 & HF & Hc0).
    assert (Hle : (length (regs st) <= 32)%nat) by lia.
    pose proof (fresh_GI app labels (mem st) 0 (regs st) 0 s6 HF ltac:(lia) Hle Hr32 ltac:(rewrite Hc0; lia)) as HG.
    pose proof (gi_front _ _ _ _ _ _ _ _ _ _ _ HG) as HFr.
    unfold init6 in E6. unfold init3.
    destruct (new_cache l1LineSize l1Size) as [ci| |]; try discriminate E6.
    change (new_cache l3LineSize l3Size) with (Ok (mkCache 16 64 [])) in E6 |- *.
    injection E6 as <-. cbn [s_m s_cycle] in HFr.
    destruct (init_rat_read ord (regs st)) as [Hcok Hcrd].
    eexists. split; [reflexivity|]. split; [|split; [reflexivity|]].
    - constructor; cbn [t_x t_eus t_wus t_cycle t_mode x_m x_ebus x_pend x_prev length Nat.add].
      + exact HFr.
      + reflexivity.
      + constructor; cbn [x_m x_ebus x_pend x_prev x_pcb x_seq x_crat x_trat x_fwd x_chan x_next x_os m_pw m_pr m_regs m_mem m_l3 m_wbus
                          flat bb_new bb_q bb_buf map List.app recvs fwds flat_map seq Nat.sub lines length];
          try reflexivity; try (constructor; fail); try lia.
        * intros s Hs. unfold zero_sb. rewrite nth_repeat_same. reflexivity.
        * intros s Hs. unfold zero_sb. rewrite nth_repeat_same. reflexivity.
        * exact Hcok.
        * intros r. rewrite Hcrd, Hlen. reflexivity.
        * apply rat_new_ok. unfold ratLength. lia.
        * intros p [].
      + apply busok_new.
      + unfold blen, bb_new. cbn. lia.
      + apply Forall_forall. intros e He. apply repeat_spec in He. subst e. split; reflexivity.
      + apply Forall_forall. intros e He. apply repeat_spec in He. subst e. reflexivity.
      + destruct par; [lia | discriminate].
      + rewrite !repeat_length. reflexivity.
      + reflexivity.
      + unfold blen, bb_new. cbn. lia.
      + unfold blen, bb_new. cbn. lia.
      + lia.
      + reflexivity.
    - unfold mu3, phi3, phiX. cbn [t_mode t_x x_m x_ebus x_pend m_fu m_dbus m_cbus m_wbus].
      unfold phiF, phi_co. cbn [f_pc f_co]. unfold blen, qlen, zlen, bb_new. cbn [bb_buf bb_q length].
      unfold fuel_bound63, MemoryAccess. lia.
  Qed.
End Init3.

(* ------------------------------------------------------------------ *)
(* the theorems                                                         *)

Section Straight63.
  Variables (app : list instr) (labels : Z -> option Z).
  Hypothesis Happ : wf_app app.
  Hypothesis Hstr : straight app = true.
  Hypothesis Hreg : reg_only app = true.
  Hypothesis Hssa : ssa app = true.
  Hypothesis Hrng : regs_ok app = true.
  Let n := length app.
  Let sp := map sinstr_of app.

  Variables (par : nat) (fuel : nat) (st st' : arch) (tr : list Z).
  Hypothesis Hpar : (1 <= par)%nat.
  Hypothesis Hr32 : Forall int32 (regs st).
  Hypothesis Hlen : length (regs st) = 32%nat.
  Hypothesis Hx0 : nth 0 (regs st) 0 = 0.
  Hypothesis Hrun : seq_run fuel sp labels st = Done st' tr.

  Lemma hsem63 : forall k, (0 <= k <= stop_from app 0)%nat -> (k < n)%nat ->
    exec (sinstr_of (ik app k)) (rget (sreg app labels (regs st) 0 k)) labels (pcz k) [] = Ok (eff app labels (regs st) 0 k) /\
    (forall a, etarget (eff app labels (regs st) 0 k) = Some a -> exists t, a = pcz t /\ (k < t <= n)%nat).
  Proof. apply (hsem_straight app labels Hstr Hreg par fuel st st' tr Hpar Hr32 ltac:(lia) Hrun). Qed.

  (* the machine of MVP-6.3 computes the sequential registers and memory on single-assignment register-only
     straight-line programs: for every number of units, every iteration order of Go's maps, all fuels from
     fuel_bound63 (length app) on; the ghost flag stays clear; the cycle count is at least half the number of
     executed instructions *)
  Theorem mvp63_run_ssa_straight ord :
    exists c, (forall fuel', (fuel_bound63 (length app) <= fuel')%nat -> mvp63_run_os par ord fuel' app labels st = (MDone c st', false)) /\
              Z.of_nat (length tr) <= 2 * c.
  Proof.
    destruct (init3_G3 app labels ord par st Hpar Hlen Hr32) as (s0 & E0 & HG & Hc0 & Hmu).
    destruct (seg_run3 app labels (regs st) (mem st) ord Happ Hstr Hreg Hssa Hrng Hlen Hr32 Hx0 hsem63 (fuel_bound63 n) s0
                (SI3_n _ _ _ _ _ _ _ _ _ _ _ HG) Hmu) as (k & r & Hk & Hr & HFin).
    pose proof Hrun as Hrun'. unfold seq_run in Hrun'. assert (Hst : st = mk_arch (regs st) (mem st)) by (destruct st; reflexivity).
    rewrite Hst in Hrun' at 1. change 0 with (pcz 0) in Hrun'.
    destruct (seg_seq_fin app labels (regs st) (mem st) 0 0 Hreg ltac:(lia) ltac:(lia) hsem63 r fuel [] st' tr HFin Hrun') as (cf & -> & Hcf).
    exists cf. split.
    - intros fuel' Hf. unfold mvp63_run_os. rewrite E0. fold n in Hf.
      replace fuel' with (k + (fuel' - k))%nat by lia. rewrite Hr. reflexivity.
    - cbn [length] in Hcf. rewrite Nat.sub_0_r, Nat.add_0_r in Hcf. lia.
  Qed.

  (* 1. refinement *)
  Theorem mvp63_refines_seq_ssa_straight ord :
    exists c, forall fuel', (fuel_bound63 (length app) <= fuel')%nat -> mvp63_run par ord fuel' app labels st = MDone c st'.
  Proof. destruct (mvp63_run_ssa_straight ord) as (c & H & _). exists c. intros fuel' Hf. unfold mvp63_run. rewrite (H fuel' Hf). reflexivity. Qed.

  (* 2. the ghost flag is clear on the whole run: no store order, no ambiguous forwarding source *)
  Theorem mvp63_ghost_clear_ssa_straight ord fuel' : (fuel_bound63 (length app) <= fuel')%nat ->
    snd (mvp63_run_os par ord fuel' app labels st) = false.
  Proof. intros Hf. destruct (mvp63_run_ssa_straight ord) as (c & H & _). rewrite (H fuel' Hf). reflexivity. Qed.

  (* 3. determinism: every iteration order of Go's maps gives the sequential state; two orders that are iteration
        orders and agree on the alias-table maps give the same cycle count as well (Mvp63Proofs.mvp63_ord_irrelevant) *)
  Theorem mvp63_deterministic_ssa_straight ord1 ord2 fuel' : (fuel_bound63 (length app) <= fuel')%nat ->
    exists c1 c2, mvp63_run par ord1 fuel' app labels st = MDone c1 st' /\ mvp63_run par ord2 fuel' app labels st = MDone c2 st' /\
                  (ords_ok3 ord1 ord2 -> c1 = c2).
  Proof.
    intros Hf. destruct (mvp63_run_ssa_straight ord1) as (c1 & H1 & _). destruct (mvp63_run_ssa_straight ord2) as (c2 & H2 & _).
    exists c1, c2. unfold mvp63_run. rewrite (H1 fuel' Hf), (H2 fuel' Hf). split; [reflexivity|]. split; [reflexivity|].
    intros Ho. pose proof (mvp63_ord_irrelevant par fuel' app labels st ord1 ord2 _ Ho (H1 fuel' Hf)) as H. rewrite (H2 fuel' Hf) in H.
    injection H as ->. reflexivity.
  Qed.

  (* 4. whenever the model finishes, with whatever fuel, it returns the sequential state and has counted at least
        ceil(executed / 2) cycles *)
  Theorem mvp63_cycles_lower_bound_ssa_straight ord fuel' c st'' :
    mvp63_run par ord fuel' app labels st = MDone c st'' ->
    st'' = st' /\ Z.of_nat (length tr) <= 2 * c /\ (Z.of_nat (length tr) + 1) / 2 <= c.
  Proof.
    intros H. destruct (mvp63_run_ssa_straight ord) as (c0 & H1 & H2).
    unfold mvp63_run in H. destruct (mvp63_run_os par ord fuel' app labels st) as [r os] eqn:E. cbn [fst] in H. subst r.
    pose proof (mvp63_run_os_more app labels par ord fuel' (fuel_bound63 (length app)) st c st'' os E) as H'.
    rewrite (H1 (fuel' + fuel_bound63 (length app))%nat ltac:(lia)) in H'. injection H' as -> -> _.
    split; [reflexivity|]. split; [exact H2|]. assert (Hd := Z.div_lt_upper_bound (Z.of_nat (length tr) + 1) 2 (c + 1)); lia.
  Qed.

  (* 5. termination within the bound *)
  Theorem mvp63_terminates_ssa_straight ord :
    exists c, mvp63_run par ord (fuel_bound63 (length app)) app labels st = MDone c st' /\ (Z.of_nat (length tr) + 1) / 2 <= c.
  Proof.
    destruct (mvp63_run_ssa_straight ord) as (c & H1 & H2). exists c. unfold mvp63_run. rewrite (H1 _ (le_n _)). split; [reflexivity|].
    assert (Hd := Z.div_lt_upper_bound (Z.of_nat (length tr) + 1) 2 (c + 1)); lia.
  Qed.

  (* 6. no panic, no error, no exhausted budget *)
  Corollary mvp63_no_panic_ssa_straight ord fuel' : (fuel_bound63 (length app) <= fuel')%nat ->
    mvp63_run par ord fuel' app labels st <> MPanic /\ mvp63_run par ord fuel' app labels st <> MOutOfFuel /\
    (forall e, mvp63_run par ord fuel' app labels st <> MErr e).
  Proof.
    intros Hf. destruct (mvp63_refines_seq_ssa_straight ord) as (c & Hc). rewrite (Hc fuel' Hf). repeat split; try discriminate.
  Qed.
End Straight63.

(* the example is an instance of the theorem: at every number of units and for EVERY order function *)
Corollary mvp63_ssa_example_any par ord : (1 <= par)%nat ->
  exists c st', seq_run 100 (map sinstr_of (map instr_of ex63_prog)) no_labels zero32 = Done st' (rev (map (fun k => 4 * Z.of_nat k) (seq 0 14))) /\
    (forall fuel, (fuel_bound63 14 <= fuel)%nat -> mvp63_run_os par ord fuel (map instr_of ex63_prog) no_labels zero32 = (MDone c st', false)) /\
    rget (regs st') 18 = 251 /\ 7 <= c.
Proof.
  intros Hpar.
  assert (Hseq : exists st', seq_run 100 (map sinstr_of (map instr_of ex63_prog)) no_labels zero32 = Done st' (rev (map (fun k => 4 * Z.of_nat k) (seq 0 14))) /\ rget (regs st') 18 = 251).
  { eexists. split; vm_compute; reflexivity. }
  destruct Hseq as (st' & Hs & R18).
  assert (Hwf : wf_app (map instr_of ex63_prog)) by (split; [|vm_compute; reflexivity]; unfold ex63_prog; cbn [map]; repeat constructor; vm_compute; discriminate).
  assert (H1 : straight (map instr_of ex63_prog) = true) by (vm_compute; reflexivity).
  assert (H2 : reg_only (map instr_of ex63_prog) = true) by (vm_compute; reflexivity).
  assert (H3 : ssa (map instr_of ex63_prog) = true) by (vm_compute; reflexivity).
  assert (H4 : regs_ok (map instr_of ex63_prog) = true) by (vm_compute; reflexivity).
  assert (H5 : Forall int32 (regs zero32)) by (unfold zero32; cbn [regs repeat]; repeat constructor; vm_compute; discriminate).
  assert (H6 : length (regs zero32) = 32%nat) by reflexivity.
  assert (H7 : nth 0 (regs zero32) 0 = 0) by reflexivity.
  destruct (mvp63_run_ssa_straight (map instr_of ex63_prog) no_labels Hwf H1 H2 H3 H4 par 100%nat zero32 st' _ Hpar H5 H6 H7 Hs ord) as (c & Hc & Hb).
  exists c, st'. split; [exact Hs|]. split; [exact Hc|]. split; [exact R18|]. cbn [length rev map seq List.app] in Hb. lia.
Qed.

(* ------------------------------------------------------------------ *)
(* an instance of the extension (proved in Mvp63RefFwdThm.v): forward control flow on a single-assignment program.
   li x5,1 ; li x6,2 ; beq x5,x6,L1 (not taken) ; addi x7,x5,3 ; bne x5,x6,L2 (taken) ; addi x8,x7,1 (shadow) ;
   L1/L2: addi x9,x7,5 ; j L3 ; addi x10,x9,1 (skipped) ; L3: addi x11,x9,2 ; ret
   - class fwd_ok of Mvp60RefProofs.v, ssa, regs_ok, register-only, NOT straight;
   - sequential result at 1..4 units, both orders, ghost flag clear, nine instructions executed *)
Definition fwd63_prog : list sinstr :=
  [SLi 5 1; SLi 6 2; SBeq 5 6 1; SAddi 7 5 3; SBne 5 6 2; SAddi 8 7 1; SAddi 9 7 5; SJ 3; SAddi 10 9 1; SAddi 11 9 2; SRet].
Definition fwd63_labels : Z -> option Z :=
  fun l => if l =? 1 then Some 20 else if l =? 2 then Some 24 else if l =? 3 then Some 36 else None.

Example mvp63_forward_ssa_example :
  let app := map instr_of fwd63_prog in
  straight app = false /\ reg_only app = true /\ ssa app = true /\ regs_ok app = true /\ fwd_ok app fwd63_labels = true /\
  exists st' tr,
    seq_run 100 (map sinstr_of app) fwd63_labels zero32 = Done st' tr /\ length tr = 9%nat /\
    map (fun k => nth k (regs st') 0) [7; 8; 9; 10; 11]%nat = [4; 0; 9; 0; 11] /\
    map (fun par => (mvp63_run_os par ord_asc 5000 app fwd63_labels zero32, mvp63_run_os par ord_desc 5000 app fwd63_labels zero32))
        [1%nat; 2%nat; 3%nat; 4%nat]
    = [((MDone 335 st', false), (MDone 335 st', false)); ((MDone 333 st', false), (MDone 333 st', false));
       ((MDone 333 st', false), (MDone 333 st', false)); ((MDone 333 st', false), (MDone 333 st', false))].
Proof.
  cbv zeta. split; [vm_compute; reflexivity|]. split; [vm_compute; reflexivity|]. split; [vm_compute; reflexivity|].
  split; [vm_compute; reflexivity|]. split; [vm_compute; reflexivity|].
  do 2 eexists. split; [vm_compute; reflexivity|]. split; [vm_compute; reflexivity|]. split; vm_compute; reflexivity.
Qed.

Print Assumptions cu_cycle_os_clear.
Print Assumptions mvp63_ssa_example_all_orders.
Print Assumptions mvp63_run_ssa_straight.
Print Assumptions mvp63_deterministic_ssa_straight.
Print Assumptions mvp63_cycles_lower_bound_ssa_straight.
Print Assumptions mvp63_ssa_example_any.
