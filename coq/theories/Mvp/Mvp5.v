(* H: faithful cycle-level model of proc/mvp5 = the MVP-4 pipeline plus a 4-entry
   branch target buffer (btb.go), the decode stall after an unconditional jump
   (du.go pendingBranchResolution), the fetch redirect that also cleans the decode
   latch (fu.go reset / toCleanPending) and the execute-unit reset on a flush.
   Shared pieces (latches, execute/write unit records, scoreboard, write unit,
   drain, memory management) are those of Mvp4.v / Mvp3.v.  Tied to the Go code by
   exact equality of (cycles, registers, memory) on every generated program. *)
From Coq Require Import ZArith List Bool Lia.
From Maj Require Import Base.Outcome Base.GoInt Base.GoTypes Isa.Spec Isa.Seq.
From Maj Require Import Gen.Latency Gen.RiscTables Gen.Opcodes Comp.Cache Mvp.Mvp12 Mvp.Mvp3 Mvp.Mvp4.
Import ListNotations.
Open Scope Z_scope.

Record fu5_t := mk_fu5 { f5_pc : Z; f5_remaining : Z; f5_complete : bool; f5_processing : bool; f5_clean : bool }.
Record bu5_t := mk_bu5 { b5_to_check : bool; b5_expectation : Z; b5_btb : list (Z * Z) }.

Definition btb_length : nat := 4.

(* branchTargetBuffer.add: update in place, else append, dropping the oldest when full *)
Fixpoint btb_update (b : list (Z * Z)) (pc dest : Z) : option (list (Z * Z)) :=
  match b with
  | [] => None
  | (p, d) :: t => if p =? pc then Some ((p, dest) :: t)
                   else match btb_update t pc dest with Some t' => Some ((p, d) :: t') | None => None end
  end.
Definition btb_add (b : list (Z * Z)) (pc dest : Z) : list (Z * Z) :=
  match btb_update b pc dest with
  | Some b' => b'
  | None => if Nat.eqb (length b) btb_length then tl b ++ [(pc, dest)] else b ++ [(pc, dest)]
  end.
Fixpoint btb_get (b : list (Z * Z)) (pc : Z) : option Z :=
  match b with
  | [] => None
  | (p, d) :: t => if p =? pc then Some d else btb_get t pc
  end.

(* fetchUnit.reset(pc, cleanPending) *)
Definition fu5_reset (f : fu5_t) (pc : Z) : fu5_t := mk_fu5 pc (f5_remaining f) false (f5_processing f) true.

(* fetchUnit.cycle *)
Definition fu5_cycle (app : list instr) (f : fu5_t) (l1i : cache) (dbus : sbus Z)
  : outcome (fu5_t * cache * sbus Z) :=
  let dbus := if f5_clean f then sbus_empty else dbus in
  let f := mk_fu5 (f5_pc f) (f5_remaining f) (f5_complete f) (f5_processing f) false in
  if f5_complete f then Ok (f, l1i, dbus) else
  r <- (if f5_processing f then Ok (f, l1i)
        else
          g <- get_all l1i [f5_pc f] [] ;;
          match g with
          | (c1, Some _) => Ok (mk_fu5 (f5_pc f) 1 (f5_complete f) true false, c1)
          | (c1, None) =>
              p <- push_line c1 (f5_pc f) (repeat 0 (Z.to_nat l1LineSize)) ;;
              Ok (mk_fu5 (f5_pc f) MemoryAccess (f5_complete f) true false, fst p)
          end) ;;
  let '(f1, c1) := r in
  let rem := f5_remaining f1 - 1 in
  if rem =? 0 then
    if negb (sbus_can_add dbus) then Ok (mk_fu5 (f5_pc f1) 1 (f5_complete f1) (f5_processing f1) false, c1, dbus)
    else
      let pc' := addS 32 (f5_pc f1) 4 in
      Ok (mk_fu5 pc' rem (nlen app <=? Z.quot pc' 4) false false, c1, sbus_add dbus (f5_pc f1))
  else Ok (mk_fu5 (f5_pc f1) rem (f5_complete f1) (f5_processing f1) false, c1, dbus).

(* decodeUnit.cycle; du = pendingBranchResolution *)
Definition du5_cycle (app : list instr) (du : bool) (dbus : sbus Z) (ebus : sbus (instr * Z))
  : outcome (bool * sbus Z * sbus (instr * Z)) :=
  if du then Ok (du, dbus, ebus) else
  if negb (sbus_can_add ebus) then Ok (du, dbus, ebus) else
  let '(dbus', got) := sbus_get dbus in
  match got with
  | None => Ok (du, dbus', ebus)
  | Some pc =>
      if nlen app <=? Z.quot pc 4 then Ok (du, dbus', ebus)
      else if Z.quot pc 4 <? 0 then Panic
      else match nth_error app (Z.to_nat (Z.quot pc 4)) with
           | Some i => Ok (InstructionType_IsUnconditionalBranch (instr_InstructionType i), dbus', sbus_add ebus (i, pc))
           | None => Panic
           end
  end.

Record eu5_env := mk_env5 { v_regs : list Z; v_mem : list Z; v_pw : list Z; v_l1d : cache;
                            v_eu : eu_t; v_wbus : sbus wb_item; v_bu : bu5_t; v_fu : fu5_t; v_du : bool }.

(* btbBranchUnit.assert *)
Definition bu5_assert (env : eu5_env) (i : instr) (pc : Z) : eu5_env :=
  let ty := instr_InstructionType i in
  let b := v_bu env in
  if InstructionType_IsUnconditionalBranch ty then
    match btb_get (b5_btb b) pc with
    | None => mk_env5 (v_regs env) (v_mem env) (v_pw env) (v_l1d env) (v_eu env) (v_wbus env)
                      (mk_bu5 true (-1) (b5_btb b)) (v_fu env) (v_du env)
    | Some nextPc => mk_env5 (v_regs env) (v_mem env) (v_pw env) (v_l1d env) (v_eu env) (v_wbus env)
                             (mk_bu5 false (b5_expectation b) (b5_btb b)) (fu5_reset (v_fu env) nextPc) (v_du env)
    end
  else if InstructionType_IsConditionalBranch ty then
    mk_env5 (v_regs env) (v_mem env) (v_pw env) (v_l1d env) (v_eu env) (v_wbus env)
            (mk_bu5 true (addS 32 pc 4) (b5_btb b)) (v_fu env) (v_du env)
  else
    mk_env5 (v_regs env) (v_mem env) (v_pw env) (v_l1d env) (v_eu env) (v_wbus env)
            (mk_bu5 false (b5_expectation b) (b5_btb b)) (v_fu env) (v_du env).

Definition bu5_should_flush (b : bu5_t) (pc : Z) : bu5_t * bool :=
  if negb (b5_to_check b) then (b, false)
  else (mk_bu5 false (b5_expectation b) (b5_btb b), negb (b5_expectation b =? pc)).

Definition set_eu (env : eu5_env) (e : eu_t) : eu5_env :=
  mk_env5 (v_regs env) (v_mem env) (v_pw env) (v_l1d env) e (v_wbus env) (v_bu env) (v_fu env) (v_du env).

(* executeUnit.run *)
Definition eu5_run (labels : Z -> option Z) (env : eu5_env) (i : instr) (pc : Z) (memory : list Z)
  : outcome (eu5_env * eu_out) + err_class :=
  match instr_Run i (rget (v_regs env)) labels pc memory 0 with
  | Panic => inl Panic
  | Err e => inr e
  | Ok exe =>
      if Return exe then inl (Ok (env, mk_euo false 0 true)) else
      let eu1 := mk_eu false (eu_pending_read (v_eu env)) (eu_addrs (v_eu env)) (eu_memory (v_eu env))
                       (eu_remaining (v_eu env)) (eu_runner (v_eu env)) in
      let stored :=
        if MemoryChange exe then
          g <- get_all (v_l1d env) (map fst (MemoryChanges exe)) [] ;;
          match g with
          | (d2, Some _) =>
              let ch := sort_changes (MemoryChanges exe) in
              match ch with
              | [] => Panic
              | (a0, _) :: _ => d3 <- write d2 a0 (map snd ch) ;; Ok (d3, true)
              end
          | (d2, None) => Ok (d2, false)
          end
        else Ok (v_l1d env, false) in
      inl (r <- stored ;;
           let '(d', in_cache) := r in
           if in_cache then
             Ok (mk_env5 (v_regs env) (v_mem env) (v_pw env) d' eu1 (v_wbus env) (v_bu env) (v_fu env) (v_du env), eu_none)
           else
             let wr := instr_WriteRegisters i in
             let wbus' := sbus_add (v_wbus env) (exe, wr) in
             let pw' := pw_add (v_pw env) wr in
             (* notifyJumpAddressResolved: btb.add, fu.reset(pcTo, true), du.notifyBranchResolved *)
             let '(bu1, fu1, du1) :=
               if InstructionType_IsUnconditionalBranch (instr_InstructionType i) then
                 (mk_bu5 (b5_to_check (v_bu env)) (b5_expectation (v_bu env)) (btb_add (b5_btb (v_bu env)) pc (NextPc exe)),
                  fu5_reset (v_fu env) (NextPc exe), false)
               else (v_bu env, v_fu env, v_du env) in
             let '(bu2, fl) := if PcChange exe then bu5_should_flush bu1 (NextPc exe) else (bu1, false) in
             Ok (mk_env5 (v_regs env) (v_mem env) pw' d' eu1 wbus' bu2 fu1 du1,
                 if fl then mk_euo true (NextPc exe) false else eu_none))
  end.

(* executeUnit.cycle *)
Definition eu5_cycle (labels : Z -> option Z) (env : eu5_env) (ebus : sbus (instr * Z))
  : outcome (eu5_env * sbus (instr * Z) * eu_out) + err_class :=
  let e := v_eu env in
  if eu_pending_read e then
    let rem := eu_remaining e - 1 in
    if negb (rem =? 0) then
      inl (Ok (set_eu env (mk_eu (eu_processing e) true (eu_addrs e) (eu_memory e) rem (eu_runner e)), ebus, eu_none))
    else
      match eu_runner e with
      | None => inl Panic
      | Some (i, pc) =>
          let got :=
            match eu_memory e with
            | Some m => Ok (v_l1d env, v_mem env, m)
            | None =>
                match eu_addrs e with
                | [] => Panic
                | a0 :: _ =>
                    ln <- fetch_cache_line (v_mem env) a0 ;;
                    r2 <- push_line_to_l1d (v_l1d env) (v_mem env) a0 ln ;;
                    r3 <- get_all (fst r2) (eu_addrs e) [] ;;
                    match r3 with
                    | (d3, Some bytes) => Ok (d3, snd r2, bytes)
                    | (_, None) => Panic
                    end
                end
            end in
          match got with
          | Ok (d', mem', bytes) =>
              let e1 := mk_eu (eu_processing e) false (eu_addrs e) None rem (eu_runner e) in
              let env1 := mk_env5 (v_regs env) mem' (v_pw env) d' e1 (v_wbus env) (v_bu env) (v_fu env) (v_du env) in
              match eu5_run labels env1 i pc bytes with
              | inr er => inr er
              | inl (Ok (env2, o)) => inl (Ok (set_eu env2 (clear_runner (v_eu env2)), ebus, o))
              | inl (Err er) => inl (Err er)
              | inl Panic => inl Panic
              end
          | Err er => inl (Err er)
          | Panic => inl Panic
          end
      end
  else
    let '(e1, ebus1, have) :=
      if eu_processing e then (e, ebus, true)
      else
        let '(ebus', got) := sbus_get ebus in
        match got with
        | None => (e, ebus', false)
        | Some (i, pc) =>
            (mk_eu true false (eu_addrs e) (eu_memory e)
                   (match InstructionType_Cycles (instr_InstructionType i) with Ok c => c | _ => 0 end)
                   (Some (i, pc)), ebus', true)
        end in
    if negb have then inl (Ok (set_eu env e1, ebus1, eu_none)) else
    let rem := eu_remaining e1 - 1 in
    let e2 := mk_eu (eu_processing e1) (eu_pending_read e1) (eu_addrs e1) (eu_memory e1) rem (eu_runner e1) in
    if negb (rem =? 0) then inl (Ok (set_eu env e2, ebus1, eu_none)) else
    let stall := mk_eu (eu_processing e1) (eu_pending_read e1) (eu_addrs e1) (eu_memory e1) 1 (eu_runner e1) in
    if negb (sbus_can_add (v_wbus env)) then inl (Ok (set_eu env stall, ebus1, eu_none)) else
    match eu_runner e1 with
    | None => inl Panic
    | Some (i, pc) =>
        let envb := bu5_assert (set_eu env e2) i pc in
        if pw_hazard (v_pw env) (instr_ReadRegisters i) then inl (Ok (set_eu envb stall, ebus1, eu_none)) else
        let addrs := instr_MemoryRead i (rget (v_regs env)) 0 in
        match addrs with
        | _ :: _ =>
            match get_all (v_l1d env) addrs [] with
            | Ok (d1, Some bytes) =>
                inl (Ok (mk_env5 (v_regs envb) (v_mem envb) (v_pw envb) d1
                                 (mk_eu (eu_processing e1) true (eu_addrs e1) (Some bytes) L1Access (eu_runner e1))
                                 (v_wbus envb) (v_bu envb) (v_fu envb) (v_du envb), ebus1, eu_none))
            | Ok (d1, None) =>
                inl (Ok (mk_env5 (v_regs envb) (v_mem envb) (v_pw envb) d1
                                 (mk_eu (eu_processing e1) true addrs (eu_memory e1) MemoryAccess (eu_runner e1))
                                 (v_wbus envb) (v_bu envb) (v_fu envb) (v_du envb), ebus1, eu_none))
            | Err er => inl (Err er)
            | Panic => inl Panic
            end
        | [] =>
            match eu5_run labels envb i pc [] with
            | inr er => inr er
            | inl (Ok (env2, o)) => inl (Ok (set_eu env2 (clear_runner (v_eu env2)), ebus1, o))
            | inl (Err er) => inl (Err er)
            | inl Panic => inl Panic
            end
        end
    end.

Record m5state := mk_m5 {
  t_regs : list Z; t_mem : list Z; t_pw : list Z; t_l1i : cache; t_l1d : cache;
  t_fu : fu5_t; t_du : bool; t_dbus : sbus Z; t_ebus : sbus (instr * Z); t_eu : eu_t;
  t_wbus : sbus wb_item; t_wu : wu_t; t_bu : bu5_t }.

Definition m5_is_complete (s : m5state) : bool :=
  f5_complete (t_fu s) && negb (eu_processing (t_eu s)) && negb (wu_pending (t_wu s)) &&
  sbus_is_empty (t_dbus s) && sbus_is_empty (t_ebus s) && sbus_is_empty (t_wbus s).

Definition m5_finish (s : m5state) (cycle : Z) : mres :=
  match flush_lines (lines (t_l1d s)) (t_mem s) 0 with
  | Ok (mem', c) => MDone (cycle + c) (mk_arch (t_regs s) mem')
  | _ => MPanic
  end.

Fixpoint m5run (fuel : nat) (app : list instr) (labels : Z -> option Z) (s : m5state) (cycle : Z) : mres :=
  match fuel with
  | O => MOutOfFuel
  | S f =>
      let cycle := cycle + 1 in
      match fu5_cycle app (t_fu s) (t_l1i s) (t_dbus s) with
      | Ok (fu1, l1i1, dbus1) =>
          match du5_cycle app (t_du s) dbus1 (t_ebus s) with
          | Ok (du1, dbus2, ebus1) =>
              let env := mk_env5 (t_regs s) (t_mem s) (t_pw s) (t_l1d s) (t_eu s) (t_wbus s) (t_bu s) fu1 du1 in
              match eu5_cycle labels env ebus1 with
              | inr e => MErr e
              | inl (Ok (env1, ebus2, o)) =>
                  match wu_cycle (v_regs env1) (v_mem env1) (v_pw env1) (t_wu s) (v_wbus env1) with
                  | Ok (regs2, mem2, pw2, wu2, wbus2) =>
                      let s2 := mk_m5 regs2 mem2 pw2 l1i1 (v_l1d env1) (v_fu env1) (v_du env1) dbus2 ebus2 (v_eu env1) wbus2 wu2 (v_bu env1) in
                      if eo_ret o then
                        match m4_drain (S (S (Z.to_nat MemoryAccess * 4)%nat)) regs2 mem2 pw2 wu2 wbus2 cycle false with
                        | Ok (regs3, mem3, pw3, wu3, wbus3, cycle3) =>
                            m5_finish (mk_m5 regs3 mem3 pw3 l1i1 (v_l1d env1) (v_fu env1) (v_du env1) dbus2 ebus2 (v_eu env1) wbus3 wu3 (v_bu env1)) cycle3
                        | _ => MPanic
                        end
                      else if eo_flush o then
                        match m4_drain (S (S (Z.to_nat MemoryAccess * 4)%nat)) regs2 mem2 pw2 wu2 wbus2 cycle true with
                        | Ok (regs3, mem3, pw3, wu3, wbus3, cycle3) =>
                            (* m.flush(pc): fetch unit, decode unit, execute unit, latches, scoreboard *)
                            let fu3 := mk_fu5 (eo_pc o) (f5_remaining (v_fu env1)) false false (f5_clean (v_fu env1)) in
                            let e := v_eu env1 in
                            let eu3 := mk_eu false (eu_pending_read e) (eu_addrs e) (eu_memory e) 0 (eu_runner e) in
                            m5run f app labels
                                  (mk_m5 regs3 mem3 zero_pw l1i1 (v_l1d env1) fu3 false sbus_empty sbus_empty eu3 sbus_empty wu3 (v_bu env1))
                                  cycle3
                        | _ => MPanic
                        end
                      else if m5_is_complete s2 then m5_finish s2 cycle
                      else m5run f app labels s2 cycle
                  | _ => MPanic
                  end
              | inl _ => MPanic
              end
          | _ => MPanic
          end
      | _ => MPanic
      end
  end.

Definition mvp5_run (fuel : nat) (app : list instr) (labels : Z -> option Z) (st : arch) : mres :=
  match new_cache l1LineSize l1Size, new_cache l1LineSize l1Size with
  | Ok ci, Ok cd =>
      m5run fuel app labels
            (mk_m5 (regs st) (mem st) zero_pw ci cd (mk_fu5 0 0 false false false) false sbus_empty sbus_empty
                   (mk_eu false false [] None 0 None) sbus_empty (mk_wu false 0) (mk_bu5 false 0 [])) 0
  | _, _ => MPanic
  end.
