(* Characterisation of the units of the MVP-4 front end (fetch unit, decode unit,
   intake of the execute unit) under the invariant of Mvp4Inv.v. *)
From Coq Require Import ZArith List Bool Lia.
From Maj Require Import Base.Outcome Base.GoInt Base.GoTypes Isa.Spec Isa.Embed Isa.Seq Isa.Refine.
From Maj Require Import Gen.Latency Gen.RiscTables Gen.Opcodes Comp.Cache.
From Maj Require Import Mvp.Mvp12 Mvp.Mvp12Proofs Mvp.Mvp3 Mvp.Mvp3Proofs Mvp.Mvp4 Mvp.Mvp4Skel Mvp.Mvp4Inv.
Import ListNotations.
Open Scope Z_scope.

(* ------------------------------------------------------------------ *)
(* fetch unit                                                           *)

Definition fuphi (f : fu_t) : Z := if fu_processing f then fu_remaining f else MemoryAccess + 1.

Lemma fu_start l1i pc cpl :
  IInv l1i -> 0 <= pc ->
  exists r0 l1i',
    (g <- get_all l1i [pc] [] ;;
     match g with
     | (c1, Some _) => Ok (mk_fu pc 1 cpl true, c1)
     | (c1, None) =>
         p <- push_line c1 pc (repeat 0 (Z.to_nat l1LineSize)) ;;
         Ok (mk_fu pc MemoryAccess cpl true, fst p)
     end) = Ok (mk_fu pc r0 cpl true, l1i') /\ IInv l1i' /\ (r0 = 1 \/ r0 = MemoryAccess).
Proof.
  intros HI Hpc. destruct (fetch_ok l1i pc HI Hpc) as (c1 & hit & Eg & c2 & Et & HI2 & _ & _).
  rewrite Eg. cbn [bind]. destruct hit as [bytes|]; cbn [fetch_tail] in Et.
  - injection Et as <- _. exists 1, c1. auto.
  - apply bind_ok in Et as (r & Ep & Er). injection Er as <- _. rewrite Ep. cbn [bind].
    exists MemoryAccess, (fst r). auto.
Qed.

Lemma fu_cycle_spec app f l1i dbus :
  IInv l1i -> (fu_complete f = false -> 0 <= fu_pc f /\ fu_pc f + 4 < 2147483648) ->
  (fu_processing f = true -> 1 <= fu_remaining f <= MemoryAccess) ->
  exists f' l1i' dbus', fu_cycle app f l1i dbus = Ok (f', l1i', dbus') /\ IInv l1i' /\
    (fu_processing f' = true -> 1 <= fu_remaining f' <= MemoryAccess) /\
    ((dbus' = dbus /\ fu_pc f' = fu_pc f /\ fu_complete f' = fu_complete f /\
      (fu_complete f = false -> sbus_can_add dbus = true -> fuphi f' < fuphi f))
     \/ (fu_complete f = false /\ sbus_can_add dbus = true /\ dbus' = sbus_add dbus (fu_pc f) /\
         f' = mk_fu (fu_pc f + 4) 0 (nlen app <=? Z.quot (fu_pc f + 4) 4) false)).
Proof.
  intros HI Hb Hrem. unfold fu_cycle.
  destruct (fu_complete f) eqn:Ec.
  { exists f, l1i, dbus. split; [reflexivity|]. split; [assumption|]. split; [assumption|].
    left. repeat split; auto. discriminate. }
  destruct (Hb eq_refl) as [Hpc Hpc4].
  assert (Hadd : addS 32 (fu_pc f) 4 = fu_pc f + 4).
  { unfold addS. apply wrapS_id; [lia|]. apply int32_bounds. lia. }
  assert (Hstart : exists r0 l1i', (if fu_processing f then Ok (f, l1i)
        else
          g <- get_all l1i [fu_pc f] [] ;;
          match g with
          | (c1, Some _) => Ok (mk_fu (fu_pc f) 1 false true, c1)
          | (c1, None) =>
              p <- push_line c1 (fu_pc f) (repeat 0 (Z.to_nat l1LineSize)) ;;
              Ok (mk_fu (fu_pc f) MemoryAccess false true, fst p)
          end) = Ok (mk_fu (fu_pc f) r0 false true, l1i') /\ IInv l1i' /\ 1 <= r0 <= MemoryAccess /\
          r0 = (if fu_processing f then fu_remaining f else r0)).
  { destruct (fu_processing f) eqn:Ep.
    - exists (fu_remaining f), l1i. split; [|auto]. destruct f; cbn in *. subst. reflexivity.
    - destruct (fu_start l1i (fu_pc f) false HI Hpc) as (r0 & l1i' & E & HI' & Hr0).
      exists r0, l1i'. split; [exact E|]. split; [assumption|]. split; [|reflexivity].
      unfold MemoryAccess in *. lia. }
  destruct Hstart as (r0 & l1i' & -> & HI' & Hr0 & Hr0e). cbn [bind fu_pc fu_remaining fu_complete fu_processing].
  destruct (Z.eqb_spec (r0 - 1) 0) as [E0|E0].
  - destruct (sbus_can_add dbus) eqn:Eadd; cbn [negb].
    + do 3 eexists. split; [reflexivity|]. split; [assumption|]. split; [cbn; discriminate|].
      right. rewrite Hadd. repeat split. f_equal. lia.
    + do 3 eexists. split; [reflexivity|]. split; [assumption|]. split; [cbn; unfold MemoryAccess; lia|].
      left. repeat split. discriminate.
  - do 3 eexists. split; [reflexivity|]. split; [assumption|]. split; [cbn; intros _; lia|].
    left. repeat split. intros _ _. unfold fuphi. cbn [fu_processing fu_remaining].
    destruct (fu_processing f); [subst r0; lia | lia].
Qed.

(* ------------------------------------------------------------------ *)
(* decode unit                                                          *)

Lemma du_cycle_spec app dbus ebus :
  (forall p, sb_current dbus = Some p -> 0 <= p) ->
  exists dbus' ebus', du_cycle app dbus ebus = Ok (dbus', ebus') /\
    ((sbus_can_add ebus = false /\ dbus' = dbus /\ ebus' = ebus)
     \/ (sbus_can_add ebus = true /\ dbus' = mk_sbus None (sb_pending dbus) /\
         ((sb_current dbus = None /\ ebus' = ebus)
          \/ (exists p, sb_current dbus = Some p /\ nlen app <= p / 4 /\ ebus' = ebus)
          \/ (exists p i, sb_current dbus = Some p /\ p / 4 < nlen app /\
                          nth_error app (Z.to_nat (p / 4)) = Some i /\ ebus' = sbus_add ebus (i, p))))).
Proof.
  intros Hpos. unfold du_cycle. destruct (sbus_can_add ebus) eqn:Eadd; cbn [negb].
  2:{ do 2 eexists. split; [reflexivity|]. left. auto. }
  unfold sbus_get. destruct (sb_current dbus) as [p|] eqn:Ecur.
  2:{ do 2 eexists. split; [reflexivity|]. right. repeat split. left. auto. }
  specialize (Hpos p eq_refl). rewrite (Z.quot_div_nonneg p 4) by lia.
  destruct (Z.leb_spec (nlen app) (p / 4)) as [Hout|Hin].
  { do 2 eexists. split; [reflexivity|]. right. repeat split. right. left. eauto. }
  assert (0 <= p / 4) by (apply Z.div_pos; lia).
  destruct (Z.ltb_spec (p / 4) 0); [lia|].
  destruct (nth_error app (Z.to_nat (p / 4))) as [i|] eqn:En.
  - do 2 eexists. split; [reflexivity|]. right. repeat split. right. right. exists p, i. auto.
  - exfalso. apply nth_error_None in En. unfold nlen in Hin. lia.
Qed.

(* ------------------------------------------------------------------ *)
(* queues                                                               *)

Lemma q_sb_add {A} (b : sbus A) x : sbus_can_add b = true -> q_sb (sbus_add b x) = q_sb b ++ [x].
Proof.
  unfold sbus_can_add, q_sb, sbus_add. destruct b as [[p|] c]; cbn; [discriminate|]. intros _.
  rewrite app_nil_r. reflexivity.
Qed.

Lemma q_sb_shift {A} (b : sbus A) : q_sb (mk_sbus None (sb_pending b)) = olist (sb_pending b).
Proof. unfold q_sb. cbn. apply app_nil_r. Qed.

Lemma q_sb_cur {A} (b : sbus A) : q_sb b = olist (sb_current b) ++ olist (sb_pending b).
Proof. reflexivity. Qed.

(* the decode unit only moves entries forward: either the flat queue is
   unchanged, or the entry at the head of the decode bus lies outside the text
   and is dropped *)
Lemma du_flow app dbus ebus dbus' ebus' :
  (forall p, sb_current dbus = Some p -> 0 <= p) ->
  Forall (entry_ok app) (q_sb ebus) ->
  du_cycle app dbus ebus = Ok (dbus', ebus') ->
  Forall (entry_ok app) (q_sb ebus') /\
  (map snd (q_sb ebus') ++ q_sb dbus' = map snd (q_sb ebus) ++ q_sb dbus
   \/ (exists p, q_sb dbus = p :: q_sb dbus' /\ nlen app <= p / 4 /\ ebus' = ebus /\ sbus_can_add ebus = true)).
Proof.
  intros Hpos Hent H. destruct (du_cycle_spec app dbus ebus Hpos) as (d & e & E & Hc). rewrite E in H.
  injection H as <- <-. destruct Hc as [(_ & -> & ->) | (Hadd & -> & Hc)]; [auto|].
  rewrite q_sb_shift. rewrite (q_sb_cur dbus).
  destruct Hc as [(Ecur & ->) | [(p & Ecur & Hout & ->) | (p & i & Ecur & Hin & En & ->)]]; rewrite Ecur; cbn [olist List.app].
  - auto.
  - split; [assumption|]. right. exists p. auto.
  - rewrite (q_sb_add ebus _ Hadd). split.
    + apply Forall_app. split; [assumption|]. constructor; [|constructor]. split; cbn [fst snd]; [apply Hpos; assumption | assumption].
    + left. rewrite map_app, <- app_assoc. reflexivity.
Qed.

(* intake of the execute unit *)
Lemma intake_flow app e ebus e1 ebus1 have :
  eu_pending_read e = false ->
  Forall (entry_ok app) (q_eu e ++ q_sb ebus) ->
  (eu_processing e = true -> 1 <= eu_remaining e <= Cmax /\ eu_runner e <> None) ->
  eu_intake e ebus = (e1, ebus1, have) ->
  q_eu e1 ++ q_sb ebus1 = q_eu e ++ q_sb ebus /\
  eu_pending_read e1 = false /\
  have = eu_processing e1 /\
  (eu_processing e1 = true -> 1 <= eu_remaining e1 <= Cmax /\ eu_runner e1 <> None) /\
  (eu_processing e = false -> sb_current ebus = None -> have = false /\ e1 = e) /\
  (eu_processing e = false -> forall x, sb_current ebus = Some x ->
      e1 = mk_eu true false (eu_addrs e) (eu_memory e) (cyc_of (fst x)) (Some x)) /\
  (eu_processing e = true -> e1 = e /\ ebus1 = ebus) /\
  (eu_processing e = false -> ebus1 = mk_sbus None (sb_pending ebus)).
Proof.
  intros Hpr Hent Hproc. unfold eu_intake. destruct (eu_processing e) eqn:Ep.
  - intros H. injection H as <- <- <-. rewrite Ep. repeat split; auto; try discriminate; apply Hproc; reflexivity.
  - unfold sbus_get. destruct (sb_current ebus) as [[i pc]|] eqn:Ecur; intros H; injection H as <- <- <-.
    + unfold q_eu, q_sb. rewrite Ep, Ecur. cbn [eu_processing eu_runner olist List.app eu_pending_read eu_remaining sb_current sb_pending].
      pose proof (cyc_of_bounds i). repeat split; auto; try discriminate; try lia.
      * rewrite app_nil_r. reflexivity.
      * intros _ x Hx. injection Hx as <-. reflexivity.
    + unfold q_eu, q_sb. rewrite Ep, Ecur. cbn [olist List.app sb_current sb_pending].
      repeat split; auto; try discriminate; try (rewrite app_nil_r; reflexivity).
Qed.
