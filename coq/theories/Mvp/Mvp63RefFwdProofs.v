(* Refinement of MVP-6.3 to the sequential machine on single-assignment register-only programs with FORWARD control
   flow - last part: a fresh state satisfies the invariant of the main loop (fresh3_G3q), NewCPU ; InitRAT gives a
   fresh state (init3_fresh3), one segment of a run (seg_run3q: main loop, drain loop after ret, the flush loops of
   Mvp63RefFwdFlush.flush_run), the induction over the segments (fwd_core3) and the theorem.

   The two one-tick lemmas of Mvp63RefFwdStep.v enter fwd_core3 through the propositions StepN3 / StepR3 (their
   statements quantified over all segments); Mvp63RefFwdStep.v proves them and the theorems at the end of this
   development instantiate them. *)
From Coq Require Import ZArith List Bool Lia Permutation.
From Maj Require Import Base.Outcome Base.GoInt Base.GoTypes Isa.Spec Isa.Embed Isa.Seq Isa.Refine Gen.Opcodes.
From Maj Require Import Gen.Latency Gen.RiscTables Comp.Cache Comp.Rat Comp.RatProofs.
From Maj Require Import Mvp.Mvp12 Mvp.Mvp12Proofs Mvp.Mvp3 Mvp.Mvp3Proofs Mvp.Mvp4Skel Mvp.Mvp4Inv Mvp.Mvp5 Mvp.Mvp60 Mvp.Mvp60Proofs
     Mvp.Mvp60RefSem Mvp.Mvp60RefDefs Mvp.Mvp60RefFront Mvp.Mvp60RefBack Mvp.Mvp60RefStep Mvp.Mvp60RefStep2 Mvp.Mvp60RefSeg Mvp.Mvp60RefProofs
     Mvp.Mvp63 Mvp.Mvp63Proofs Mvp.Mvp63RefDefs Mvp.Mvp63RefInv Mvp.Mvp63RefExec Mvp.Mvp63RefRat Mvp.Mvp63RefStep Mvp.Mvp63RefProofs
     Mvp.Mvp63RefFwdDefs Mvp.Mvp63RefFwdRat Mvp.Mvp63RefFwdFront Mvp.Mvp63RefFwdFlush.
Import ListNotations.
Open Scope Z_scope.

(* the text is short enough for the sequence ids (pc + 1000 * ctx.sequenceID, int32; ctx.sequenceID grows by at most
   two per segment: fetchUnit.reset of a jump, CPU.flush) never to wrap *)
Definition seq_ids_fit3 (app : list instr) : Prop := 2004 * Z.of_nat (length app) + 2004 < 2147483648.

(* ticks of Run that suffice for one segment (main loop + flush loops) / for a whole run *)
Definition seg_bound63 (n : nat) : nat := (400 * n + 1600 + 8)%nat.
Definition fuel_bound63_fwd (n : nat) : nat := ((n + 1) * seg_bound63 n)%nat.

(* the hypotheses of a segment *)
Definition SegHyp (app : list instr) (labels : Z -> option Z) (regs0 : list Z) (base : nat) (sq : Z) : Prop :=
  length regs0 = 32%nat /\ Forall int32 regs0 /\ nth 0 regs0 0 = 0 /\ (base <= length app)%nat /\
  (0 <= sq /\ 1000 * sq + 4 * Z.of_nat (length app) + 4 < 2147483648).

(* the statements of the two one-tick lemmas, for all segments *)
Definition StepN3 (app : list instr) (labels : Z -> option Z) : Prop :=
  forall regs0 mem0 base sq ord, SegHyp app labels regs0 base sq ->
  forall dp d c f xe w s, G3q app labels regs0 mem0 base sq dp d c f xe w s ->
    (exists s' dp' d' c' f' xe' w', step3 app labels ord s = TCont s' /\ G3q app labels regs0 mem0 base sq dp' d' c' f' xe' w' s' /\
                                    phiX app (t_x s') < phiX app (t_x s)) \/
    (exists r, step3 app labels ord s = TDone r false /\ Fin3q app labels regs0 mem0 base r) \/
    (exists s' w', step3 app labels ord s = TCont s' /\ GR3q app labels regs0 mem0 base sq w' s') \/
    (exists s' w' E t sqx, step3 app labels ord s = TCont s' /\ GF3 app labels regs0 mem0 base sq w' E t sqx s').

Definition StepR3 (app : list instr) (labels : Z -> option Z) : Prop :=
  forall regs0 mem0 base sq ord, SegHyp app labels regs0 base sq ->
  forall w s, GR3q app labels regs0 mem0 base sq w s ->
    (exists s' w', step3 app labels ord s = TCont s' /\ GR3q app labels regs0 mem0 base sq w' s' /\
                   qlen (m_wbus (x_m (t_x s'))) < qlen (m_wbus (x_m (t_x s)))) \/
    (exists r, step3 app labels ord s = TDone r false /\ Fin3q app labels regs0 mem0 base r).

(* ------------------------------------------------------------------ *)
(* a fresh state                                                        *)

Lemma cnt_nil f s : cnt f [] s = 0. Proof. reflexivity. Qed.

Lemma fresh3_G3q app labels mem0 t sq R s : Fresh3 app labels mem0 t sq R s -> (t <= length app)%nat ->
  G3q app labels R mem0 t sq t t t t t t s.
Proof.
  intros HF Ht. destruct (fresh3_front app labels mem0 t sq R s HF Ht) as (HFr & HTag & Hcu).
  destruct HF as [H1 H2 H3 H4 H5 H6 H7 H8 H9 H10 H11 H12 H13 H14 H15 H16 H17 H18 H19 H20 H21 H22 H23 H24 H25 H26 H27 H28 H29 H30 H31 H32].
  pose proof (stop_from_ge app t) as HtN.
  constructor.
  - rewrite H19. cbn [length]. rewrite Nat.add_0_r. exact HFr.
  - exact HTag.
  - exact Hcu.
  - rewrite H19, H20. constructor; rewrite ?H18, ?H17, ?H3, ?H4; cbn [flat bb_new bb_q bb_buf map List.app length recvs fwds flat_map];
      try rewrite Nat.sub_diag; cbn [seq map]; auto; try (constructor; fail); try lia.
    + intros s0 Hs. unfold zero_sb. rewrite nth_repeat_same. reflexivity.
    + intros s0 Hs. unfold zero_sb. rewrite nth_repeat_same. reflexivity.
    + rewrite H21. discriminate.
    + intros p [].
  - rewrite H18. apply busok_new.
  - rewrite H18. unfold blen, bb_new. cbn. lia.
  - exact H27.
  - exact H28.
  - exact H29.
  - exact H30.
  - exact H31.
  - rewrite H17. reflexivity.
  - rewrite H17. unfold blen, bb_new. cbn. lia.
  - rewrite H17. unfold blen, bb_new. cbn. lia.
  - exact H32.
Qed.

(* NewCPU ; InitRAT *)
Lemma init3_fresh3 app labels ord par st : (1 <= par)%nat -> length (regs st) = 32%nat -> nth 0 (regs st) 0 = 0 ->
  exists s0, init3 par ord app st = Ok s0 /\ Fresh3 app labels (mem st) 0 0 (regs st) s0.
Proof.
  intros Hpar Hlen Hx0. destruct init_caches as (c0 & E0 & HI0 & _ & _). unfold init3. rewrite E0.
  change (new_cache l3LineSize l3Size) with (Ok (mkCache 16 64 [])). eexists. split; [reflexivity|].
  constructor; cbn [t_x t_eus t_wus t_cycle t_mode x_m x_ebus x_pend x_prev x_pcb x_seq x_crat x_trat x_fwd x_chan x_next x_os
                    m_regs m_mem m_pw m_pr m_l3 m_fu m_l1i m_dret m_dpbr m_cu m_bu m_dbus m_cbus m_ebus m_wbus f_pc f_complete f_co b_btb lines];
    auto; try reflexivity; try (constructor; fail).
  - apply tab_init; assumption.
  - apply Forall_forall. intros e He. apply repeat_spec in He. subst e. split; reflexivity.
  - apply Forall_forall. intros e He. apply repeat_spec in He. subst e. intros r Hr. discriminate Hr.
  - apply Forall_forall. intros e He. apply repeat_spec in He. subst e. reflexivity.
  - destruct par; [lia | discriminate].
  - rewrite !repeat_length. reflexivity.
Qed.

(* ------------------------------------------------------------------ *)
(* one segment                                                          *)

Section SegRun.
  Variables (app : list instr) (labels : Z -> option Z) (regs0 mem0 : list Z) (base : nat) (sq : Z) (ord : Z -> Z -> list Z -> list Z).
  Hypothesis Happ : wf_app app.
  Hypothesis Hreg : reg_only app = true.
  Hypothesis Hrng : regs_ok app = true.
  Hypothesis HSeg : SegHyp app labels regs0 base sq.
  Let n := length app.
  Let N := stop_from app base.

  Notation sreg := (sreg app labels regs0 base).
  Notation kout := (kout app labels regs0 base).
  Notation G3q := (G3q app labels regs0 mem0 base sq).
  Notation GR3q := (GR3q app labels regs0 mem0 base sq).
  Notation GF3 := (GF3 app labels regs0 mem0 base sq).
  Notation Fin3q := (Fin3q app labels regs0 mem0 base).

  Hypothesis Hsem : forall k, (base <= k <= N)%nat -> (k < n)%nat ->
    exec (sinstr_of (ik app k)) (rget (sreg k)) labels (pcz k) [] = Ok (eff app labels regs0 base k) /\
    (forall a, etarget (eff app labels regs0 base k) = Some a -> exists t, a = pcz t /\ (k < t <= n)%nat).
  Hypothesis HSN : StepN3 app labels.
  Hypothesis HSR : StepR3 app labels.

  Inductive SInv3q (s : st3) : Prop :=
  | SI3q_n dp d c f xe w : G3q dp d c f xe w s -> SInv3q s
  | SI3q_r w : GR3q w s -> SInv3q s.

  Definition mu3q (s : st3) : Z :=
    match t_mode s with
    | NNormal => phiX app (t_x s) + 3
    | _ => qlen (m_wbus (x_m (t_x s)))
    end.

  Lemma phi3q_nn dp d c f xe w s : G3q dp d c f xe w s -> 0 <= phiX app (t_x s).
  Proof.
    intros HG. unfold phiX.
    pose proof (fr_fetch _ _ _ _ _ _ _ (q3_front _ _ _ _ _ _ _ _ _ _ _ _ _ HG)) as HFt.
    pose proof (phiF_nonneg app base _ _ _ HFt) as HP. cbn [untag_m set_cbus m_fu] in HP.
    pose proof (blen_ge0 (m_dbus (x_m (t_x s)))). pose proof (qlen_ge0 (m_dbus (x_m (t_x s)))). pose proof (blen_ge0 (m_cbus (x_m (t_x s)))).
    pose proof (qlen_ge0 (m_cbus (x_m (t_x s)))). pose proof (zlen_ge0 (x_pend (t_x s))). pose proof (blen_ge0 (x_ebus (t_x s))).
    pose proof (qlen_ge0 (x_ebus (t_x s))). pose proof (blen_ge0 (m_wbus (x_m (t_x s)))). pose proof (qlen_ge0 (m_wbus (x_m (t_x s)))). lia.
  Qed.

  Lemma mu3q_nonneg s : SInv3q s -> 0 <= mu3q s.
  Proof.
    intros [dp d c f xe w HG|w HG]; unfold mu3q.
    - rewrite (q3_mode _ _ _ _ _ _ _ _ _ _ _ _ _ HG). pose proof (phi3q_nn _ _ _ _ _ _ _ HG). lia.
    - rewrite (rq_mode _ _ _ _ _ _ _ _ HG). apply qlen_ge0.
  Qed.

  (* how a segment ends: Run returns, or a flush leads to a fresh state at the target *)
  Definition SegEnd3 (s : st3) (bound : nat) : Prop :=
    (exists k r, (1 <= k <= bound)%nat /\ (forall extra, run3_st (k + extra) app labels ord s = inl (r, false)) /\ Fin3q r) \/
    (exists k s' E t sqx, (1 <= k <= bound)%nat /\ (forall extra, run3_st (k + extra) app labels ord s = run3_st extra app labels ord s') /\
       Fresh3 app labels mem0 t (sqx + 1) (sreg (S E)) s' /\ (base <= E <= N)%nat /\ (E < t <= n)%nat /\
       (forall k', (base <= k' < E)%nat -> kout k' = euo_none) /\ kout E = mk_euo6 true (pcz E) (pcz t) false /\ sq <= sqx <= sq + 1).

  Lemma run3q_S s s' fuel : step3 app labels ord s = TCont s' -> run3_st (S fuel) app labels ord s = run3_st fuel app labels ord s'.
  Proof. intros H. cbn [run3_st]. rewrite H. reflexivity. Qed.

  Lemma run3q_done s r os fuel : step3 app labels ord s = TDone r os -> run3_st (S fuel) app labels ord s = inl (r, os).
  Proof. intros H. cbn [run3_st]. rewrite H. reflexivity. Qed.

  Lemma seg_run3q : forall (b : nat) s, SInv3q s -> mu3q s < Z.of_nat b -> SegEnd3 s (b + 8).
  Proof.
    destruct HSeg as (Hlen0 & Hr32 & Hx0 & Hbase & Hsq).
    induction b as [|b IH]; intros s HS Hmu.
    - pose proof (mu3q_nonneg s HS). lia.
    - assert (Hnext : forall s', step3 app labels ord s = TCont s' -> SInv3q s' -> mu3q s' < mu3q s -> SegEnd3 s (S b + 8)).
      { intros s' Es HS' Hlt. destruct (IH s' HS' ltac:(lia)) as [(k & r & Hk & Hr & HF)|(k & s'' & E & t & sqx & Hk & Hr & Hrest)].
        - left. exists (S k), r. split; [lia|]. split; [|exact HF]. intros extra. cbn [Nat.add]. rewrite (run3q_S _ _ _ Es). apply Hr.
        - right. exists (S k), s'', E, t, sqx. split; [lia|]. split; [|exact Hrest]. intros extra. cbn [Nat.add]. rewrite (run3q_S _ _ _ Es). apply Hr. }
      assert (Hdone : forall r, step3 app labels ord s = TDone r false -> Fin3q r -> SegEnd3 s (S b + 8)).
      { intros r Es HF. left. exists 1%nat, r. split; [lia|]. split; [|exact HF]. intros extra. apply run3q_done. exact Es. }
      destruct HS as [dp d c f xe w HG|w HG].
      + destruct (HSN regs0 mem0 base sq ord HSeg dp d c f xe w s HG)
          as [(s' & dp' & d' & c' & f' & xe' & w' & Es & HG' & Hlt)|[(r & Es & HF)|[(s' & w' & Es & HG')|(s' & w' & E & t & sqx & Es & HG')]]].
        * apply (Hnext s' Es (SI3q_n s' dp' d' c' f' xe' w' HG')). unfold mu3q.
          rewrite (q3_mode _ _ _ _ _ _ _ _ _ _ _ _ _ HG), (q3_mode _ _ _ _ _ _ _ _ _ _ _ _ _ HG'). lia.
        * apply (Hdone r Es HF).
        * apply (Hnext s' Es (SI3q_r s' w' HG')). pose proof (phi3q_nn _ _ _ _ _ _ _ HG) as H0.
          unfold mu3q in *. rewrite (q3_mode _ _ _ _ _ _ _ _ _ _ _ _ _ HG) in *. rewrite (rq_mode _ _ _ _ _ _ _ _ HG').
          pose proof (bus_q _ _ (rq_bw _ _ _ _ _ _ _ _ HG')). lia.
        * (* the flush loops *)
          destruct (f3_seq _ _ _ _ _ _ _ _ _ _ _ HG') as (Hsx & Hsq1).
          destruct (flush_run app labels regs0 mem0 base sq ord Hreg Hrng Hlen0 Hx0 Hbase (proj1 Hsq) Hsem w' E t sqx s' ltac:(clear - Hsq Hsq1; lia) HG')
            as (k & s'' & Hk & Hr & HFr).
          destruct (f3_E _ _ _ _ _ _ _ _ _ _ _ HG') as (E1 & E2 & E3 & E4).
          right. exists (S k), s'', E, t, sqx. split; [lia|].
          split; [intros extra; cbn [Nat.add]; rewrite (run3q_S _ _ _ Es); apply Hr|].
          split; [exact HFr|]. split; [fold N in E2; lia|]. split; [fold n; exact E4|].
          split; [exact (f3_exec _ _ _ _ _ _ _ _ _ _ _ HG')|]. split; [exact (f3_out _ _ _ _ _ _ _ _ _ _ _ HG') | exact Hsq1].
      + destruct (HSR regs0 mem0 base sq ord HSeg w s HG) as [(s' & w' & Es & HG' & Hlt)|(r & Es & HF)].
        * apply (Hnext s' Es (SI3q_r s' w' HG')). unfold mu3q. rewrite (rq_mode _ _ _ _ _ _ _ _ HG), (rq_mode _ _ _ _ _ _ _ _ HG'). exact Hlt.
        * apply (Hdone r Es HF).
  Qed.
End SegRun.

(* ------------------------------------------------------------------ *)
(* the segments put together                                            *)

Section Fwd3.
  Variables (app : list instr) (labels : Z -> option Z).
  Hypothesis Happ : wf_app app.
  Hypothesis Hreg : reg_only app = true.
  Hypothesis Hrng : regs_ok app = true.
  Hypothesis Hfwd : fwd_ok app labels = true.
  Hypothesis Hfit : seq_ids_fit3 app.
  Hypothesis HSN : StepN3 app labels.
  Hypothesis HSR : StepR3 app labels.
  Let n := length app.
  Let sp := map sinstr_of app.

  Lemma seghyp t sq R : length R = 32%nat -> Forall int32 R -> nth 0 R 0 = 0 -> (t <= n)%nat -> 0 <= sq <= 2 * Z.of_nat t ->
    SegHyp app labels R t sq.
  Proof.
    intros H1 H2 H3 H4 H5. unfold SegHyp. repeat split; auto; try lia.
    unfold seq_ids_fit3 in Hfit. fold n in Hfit |- *. lia.
  Qed.

  Lemma fwd_core3 ord mem0 : forall m t R sq s fuel tr0 st' tr,
    (n - t <= m)%nat -> (t <= n)%nat -> Fresh3 app labels mem0 t sq R s -> length R = 32%nat -> Forall int32 R -> nth 0 R 0 = 0 ->
    0 <= sq <= 2 * Z.of_nat t ->
    Seq.run fuel sp labels (mk_arch R mem0) (pcz t) tr0 = Done st' tr ->
    exists K c, (K <= (m + 1) * seg_bound63 n)%nat /\
                forall extra, run3_st (K + extra) app labels ord s = inl (MDone c st', false).
  Proof.
    induction m as [|m IH]; intros t R sq s fuel tr0 st' tr Hm Htn HF HlR HR Hx0 Hsq Hrun.
    - (* t = n: the segment cannot end in a flush *)
      pose proof (seghyp t sq R HlR HR Hx0 Htn Hsq) as HSeg.
      assert (HlR' : (length R <= 32)%nat) by (rewrite HlR; apply le_n).
      pose proof (fresh3_G3q app labels mem0 t sq R s HF Htn) as HG.
      pose proof (fresh3_phi app labels mem0 t sq R s HF) as Hphi.
      assert (Hmu : mu3q app s < Z.of_nat (400 * n + 1600)).
      { unfold mu3q. rewrite (q3_mode _ _ _ _ _ _ _ _ _ _ _ _ _ HG). fold n in Hphi. exact Hphi. }
      destruct (seg_run3q app labels R mem0 t sq ord Hreg Hrng HSeg (hsem_all app labels Hfwd R t) HSN HSR (400 * n + 1600)%nat s
                  (SI3q_n app labels R mem0 t sq s _ _ _ _ _ _ HG) Hmu)
        as [(k & r & Hk & Hr & (off & HFin))|(k & s' & E & t' & sqx & Hk & Hr & HFr & HE & Ht' & _)]; [|fold n in Ht'; lia].
      destruct (seg_seq_fin app labels R mem0 t off Hreg HlR' Htn (hsem_all app labels Hfwd R t) r fuel tr0 st' tr HFin Hrun) as (cf & -> & _).
      exists k, cf. split; [unfold seg_bound63; lia | exact Hr].
    - pose proof (seghyp t sq R HlR HR Hx0 Htn Hsq) as HSeg.
      assert (HlR' : (length R <= 32)%nat) by (rewrite HlR; apply le_n).
      pose proof (fresh3_G3q app labels mem0 t sq R s HF Htn) as HG.
      pose proof (fresh3_phi app labels mem0 t sq R s HF) as Hphi.
      assert (Hmu : mu3q app s < Z.of_nat (400 * n + 1600)).
      { unfold mu3q. rewrite (q3_mode _ _ _ _ _ _ _ _ _ _ _ _ _ HG). fold n in Hphi. exact Hphi. }
      destruct (seg_run3q app labels R mem0 t sq ord Hreg Hrng HSeg (hsem_all app labels Hfwd R t) HSN HSR (400 * n + 1600)%nat s
                  (SI3q_n app labels R mem0 t sq s _ _ _ _ _ _ HG) Hmu)
        as [(k & r & Hk & Hr & (off & HFin))|(k & s' & E & t' & sqx & Hk & Hr & HFr & HE & Ht' & Hex & Hout & Hsqx)].
      + destruct (seg_seq_fin app labels R mem0 t off Hreg HlR' Htn (hsem_all app labels Hfwd R t) r fuel tr0 st' tr HFin Hrun) as (cf & -> & _).
        exists k, cf. split; [unfold seg_bound63 in *; lia | exact Hr].
      + fold n in Ht'.
        destruct (seg_seq_flush app labels R mem0 t Hreg HlR' Htn (hsem_all app labels Hfwd R t) E t' fuel tr0 st' tr HE Ht' Hex Hout Hrun) as (fuel' & tr1 & Hrun').
        destruct (IH t' (sreg app labels R t (S E)) (sqx + 1) s' fuel' tr1 st' tr ltac:(lia) ltac:(lia) HFr
                    (sreg_len32 app labels R t HlR (S E)) (sreg_r32 app labels R t HR (S E)) (sreg_x0 app labels R t Hrng HlR Hx0 (S E))
                    ltac:(lia) Hrun') as (K' & c & HK' & Hr').
        exists (k + K')%nat, c. split; [unfold seg_bound63 in *; lia|]. intros extra. rewrite <- Nat.add_assoc, Hr. apply Hr'.
  Qed.

  (* forward control flow on single-assignment register-only programs: the pipeline computes the sequential registers
     and memory, the ghost flag stays clear *)
  Theorem mvp63_run_ssa_forward_core par ord fuel st st' tr : (1 <= par)%nat ->
    Forall int32 (regs st) -> length (regs st) = 32%nat -> nth 0 (regs st) 0 = 0 ->
    seq_run fuel sp labels st = Done st' tr ->
    exists c, forall fuel', (fuel_bound63_fwd (length app) <= fuel')%nat -> mvp63_run_os par ord fuel' app labels st = (MDone c st', false).
  Proof.
    intros Hpar HR HlR Hx0 Hrun. destruct (init3_fresh3 app labels ord par st Hpar HlR Hx0) as (s0 & E0 & HF).
    unfold seq_run in Hrun. assert (Hst : st = mk_arch (regs st) (mem st)) by (destruct st; reflexivity).
    rewrite Hst in Hrun at 1. change 0 with (pcz 0) in Hrun.
    destruct (fwd_core3 ord (mem st) n O (regs st) 0 s0 fuel [] st' tr ltac:(lia) ltac:(lia) HF HlR HR Hx0 ltac:(lia) Hrun) as (K & c & HK & Hr).
    exists c. intros fuel' Hf. unfold mvp63_run_os. rewrite E0.
    unfold fuel_bound63_fwd in Hf. fold n in Hf.
    replace fuel' with (K + (fuel' - K))%nat by lia. rewrite Hr. reflexivity.
  Qed.
End Fwd3.

Print Assumptions fresh3_G3q.
Print Assumptions init3_fresh3.
Print Assumptions seg_run3q.
Print Assumptions mvp63_run_ssa_forward_core.
