(* H: faithful cycle-level models of proc/mvp1/cpu.go and proc/mvp2/cpu.go
   (the two unpipelined variants), one Gallina step per iteration of the Go
   Run loop, built on the GENERATED instruction model (Gen/Opcodes.v), the
   generated latency table and the generated Cycles function.

   Differences between the two variants are confined to the fetch policy:
   MVP-1 always pays MemoryAccess, MVP-2 keeps a window [from, to] of 65 bytes
   (17 instructions) and pays L1Access inside it. *)
From Coq Require Import ZArith List Bool Lia.
From Maj Require Import Base.Outcome Base.GoInt Base.GoTypes Isa.Spec Isa.Seq.
From Maj Require Import Gen.Latency Gen.RiscTables Gen.Opcodes.
Import ListNotations.
Open Scope Z_scope.

Inductive mres : Type :=
| MDone (cycles : Z) (st : arch)
| MErr (e : err_class)         (* Run returned (0, err) *)
| MPanic                       (* a Go run-time panic *)
| MOutOfFuel.

Inductive variant12 := V1 | V2.

Definition l1iSize : Z := 64.   (* proc/mvp2/cpu.go *)
Definition cyclesDecode : Z := 1.

(* fetchInstruction: cycles added and the new L1I window *)
Definition fetch12 (v : variant12) (pc : Z) (win : Z * Z) : Z * (Z * Z) :=
  match v with
  | V1 => (MemoryAccess, win)
  | V2 => let '(from, to) := win in
          if (from <=? pc) && (pc <=? to) then (L1Access, win)
          else (MemoryAccess, (pc, addS 32 pc l1iSize))
  end.

Definition init_win : Z * Z := (-1, -1).

Fixpoint mrun (v : variant12) (fuel : nat) (app : list instr) (labels : Z -> option Z)
         (regs mem : list Z) (cycle : Z) (win : Z * Z) (pc : Z) : mres :=
  match fuel with
  | O => MOutOfFuel
  | S f =>
      (* for pc/4 < int32(len(app.Instructions)) *)
      if Z.quot pc 4 <? Z.of_nat (length app) then
        let '(c1, win') := fetch12 v pc win in
        (* decode: app.Instructions[pc/4] *)
        if Z.quot pc 4 <? 0 then MPanic else
        match nth_error app (Z.to_nat (Z.quot pc 4)) with
        | None => MPanic
        | Some i =>
            let rr := rget regs in
            let addrs := instr_MemoryRead i rr 0 in
            if negb (forallb (in_mem mem) addrs) then MPanic else
            let bytes := map (mget mem) addrs in
            let c2 := match addrs with [] => 0 | _ => MemoryAccess end in
            match instr_Run i rr labels pc bytes 0 with
            | Panic => MPanic
            | Err e => MErr e
            | Ok exe =>
                match InstructionType_Cycles (instr_InstructionType i) with
                | Ok c3 =>
                    let cycle' := cycle + c1 + cyclesDecode + c2 + c3 in
                    if Return exe then MDone cycle' (mk_arch regs mem) else
                    let pc' := if PcChange exe then NextPc exe else addS 32 pc 4 in
                    if RegisterChange exe then
                      mrun v f app labels (rset regs (Register exe) (RegisterValue exe)) mem
                           (cycle' + RegisterAccess) win' pc'
                    else if MemoryChange exe then
                      if negb (forallb (in_mem mem) (map fst (MemoryChanges exe))) then MPanic
                      else mrun v f app labels regs (mset_all mem (MemoryChanges exe))
                                (cycle' + MemoryAccess) win' pc'
                    else mrun v f app labels regs mem cycle' win' pc'
                | _ => MPanic
                end
            end
        end
      else MDone cycle (mk_arch regs mem)
  end.

Definition mvp12_run (v : variant12) (fuel : nat) (app : list instr) (labels : Z -> option Z) (st : arch) : mres :=
  mrun v fuel app labels (regs st) (mem st) 0 init_win 0.

(* the documented latency model of MVP-1 (README, "MVP-1"): fetch + decode +
   optional memory read + execute + write-back, per executed instruction *)
Definition is_ret (i : instr) : bool := match i with I_ret _ => true | _ => false end.

Definition cost1 (i : instr) : Z :=
  let ty := instr_InstructionType i in
  MemoryAccess + cyclesDecode
  + (if InstructionType_IsMemoryRead ty then MemoryAccess else 0)
  + match InstructionType_Cycles ty with Ok c => c | _ => 0 end
  + (if is_ret i then 0
     else match instr_WriteRegisters i with
          | _ :: _ => RegisterAccess
          | [] => if InstructionType_IsMemoryWrite ty then MemoryAccess else 0
          end).

(* sum of the costs of the instructions at the pcs of a trace *)
Definition trace_cost (app : list instr) (tr : list Z) : Z :=
  fold_right (fun pc acc => acc + match nth_error app (Z.to_nat (pc / 4)) with
                                  | Some i => cost1 i | None => 0 end) 0 tr.
