(* The MVP-4 model on a program whose stores may miss in the L1D is, cycle for
   cycle, its skeleton (Mvp4sSkel.v) plus the values of the sequential machine.
   The model's memory + L1D are related by VInv (Mvp3Proofs.v) to the "landed"
   memory: the sequential memory minus the stores that still travel on the write
   bus; the lines of those stores are not resident in the L1D. *)
From Coq Require Import ZArith List Bool Lia.
From Maj Require Import Base.Outcome Base.GoInt Base.GoTypes Isa.Spec Isa.Embed Isa.Seq Isa.Refine.
From Maj Require Import Gen.Latency Gen.RiscTables Gen.Opcodes Comp.Cache Comp.CacheSpec Comp.MapFacts Comp.CacheProofs.
From Maj Require Import Mvp.Mvp12 Mvp.Mvp12Proofs Mvp.Mvp3 Mvp.Mvp3Proofs Mvp.Mvp4 Mvp.Mvp4Skel Mvp.Mvp4Inv Mvp.Mvp4Units
     Mvp.Mvp4Front Mvp.Mvp4Sim Mvp.Mvp4mSkel Mvp.Mvp4mInv Mvp.Mvp4mFront Mvp.Mvp4mSim Mvp.Mvp4sSkel Mvp.Mvp4sFront.
Import ListNotations.
Open Scope Z_scope.

(* ------------------------------------------------------------------ *)
(* residency                                                            *)

Lemma a_get_in r a b : In b (fst (a_get r a)) -> In b r.
Proof.
  unfold a_get. destruct (find (covers 64 a) r) as [c|] eqn:E; cbn [fst]; [|auto].
  apply find_some in E as [Hin _]. intros [<-|H]; [exact Hin | eapply in_remove_first; exact H].
Qed.

Lemma a_get_all_in l : forall r b, In b (fst (a_get_all r l)) -> In b r.
Proof.
  induction l as [|a t IH]; intros r b; cbn [a_get_all]; [auto|].
  destruct (snd (a_get r a)); [intros H; apply (a_get_in r a), (IH _ _ H) | apply a_get_in].
Qed.

Lemma a_fill_in r a0 b : In b (a_fill r a0) -> b = a0 - a0 mod 64 \/ In b r.
Proof.
  unfold a_fill. set (r1 := (a0 - a0 mod 64) :: r). destruct (zlen r1 >? 16).
  - intros H. apply in_remove_first in H. destruct H as [<-|H]; auto.
  - intros [<-|H]; auto.
Qed.

Lemma view_none_sub c sc c' sc' x :
  DInv c sc -> DInv c' sc' -> view sc x = None ->
  (forall b, In b (s_rec sc') -> In b (s_rec sc) \/ covers 64 x b = false) ->
  view sc' x = None.
Proof.
  intros HD HD' Hn Hsub. apply view_none_intro. rewrite (d_len _ _ HD'). intros b Hb.
  destruct (Hsub b Hb) as [Hin|Hc]; [|exact Hc]. pose proof (view_none sc x Hn b Hin) as H. rewrite (d_len _ _ HD) in H. exact H.
Qed.

Lemma covers_other_line x a0 : x / 64 <> a0 / 64 -> covers 64 x (a0 - a0 mod 64) = false.
Proof.
  intros H. destruct (covers 64 x (a0 - a0 mod 64)) eqn:E; [|reflexivity]. exfalso. apply covers_spec in E. apply H. lia.
Qed.

(* ------------------------------------------------------------------ *)
(* the write side of the model against its shape                        *)

Definition shape (x : wb_item) : list Z * list Z :=
  (snd x, if MemoryChange (fst x) then map fst (MemoryChanges (fst x)) else []).
Definition wshape (x : witem) : list Z * list Z := (wi_wr x, wi_sa x).

Definition papply (x : option wb_item) (ms : list Z) : list Z :=
  match x with
  | Some (exe, _) => if MemoryChange exe then mset_all ms (MemoryChanges exe) else ms
  | None => ms
  end.

Lemma papply_length x ms : length (papply x ms) = length ms.
Proof. destruct x as [[exe wr]|]; cbn [papply]; [destruct (MemoryChange exe); [apply mset_all_length|]|]; reflexivity. Qed.

Lemma in_mem_len m1 m2 a : length m1 = length m2 -> in_mem m1 a = in_mem m2 a.
Proof. intros H. unfold in_mem. rewrite H. reflexivity. Qed.

Lemma forallb_in_mem_len m1 m2 l : length m1 = length m2 -> forallb (in_mem m1) l = forallb (in_mem m2) l.
Proof. intros H. induction l as [|a t IH]; cbn [forallb]; [reflexivity|]. rewrite IH, (in_mem_len m1 m2 a H). reflexivity. Qed.

(* an entry of the write bus: a register write, nothing, or a store whose line is not in the L1D *)
Definition item_good (sc : scache) (ms : list Z) (x : wb_item) : Prop :=
  wb_rel (fst x) (snd x) /\
  (MemoryChange (fst x) = false -> RegisterChange (fst x) = false -> snd x = []) /\
  (MemoryChange (fst x) = true ->
     RegisterChange (fst x) = false /\ MemoryChanges (fst x) <> [] /\
     forallb (in_mem ms) (map fst (MemoryChanges (fst x))) = true /\
     same_line (map fst (MemoryChanges (fst x))) = true /\
     (forall a, In a (map fst (MemoryChanges (fst x))) -> view sc a = None)).

Lemma item_good_len sc ms ms' x : length ms = length ms' -> item_good sc ms x -> item_good sc ms' x.
Proof.
  intros Hl (H1 & H2 & H3). split; [exact H1|]. split; [exact H2|]. intros Hm.
  destruct (H3 Hm) as (A & B & C & D & E). rewrite (forallb_in_mem_len ms ms' _ Hl) in C. auto.
Qed.

Lemma item_good_sc c sc c' sc' ms x : DInv c sc -> DInv c' sc' ->
  (forall a, MemoryChange (fst x) = true -> In a (map fst (MemoryChanges (fst x))) -> view sc a = None -> view sc' a = None) ->
  item_good sc ms x -> item_good sc' ms x.
Proof.
  intros HD HD' Hv (H1 & H2 & H3). split; [exact H1|]. split; [exact H2|]. intros Hm.
  destruct (H3 Hm) as (A & B & C & D & E). repeat split; auto.
Qed.

Record WR (l1d : cache) (sc : scache) (st : arch) (rg m : list Z) (wp wc : option wb_item)
          (swp swc : option witem) : Prop := mkWR {
  wr_v : exists msl, VInv l1d sc m msl /\ mem st = papply wp (papply wc msl);
  wr_regs : regs st = cur_regs wp (cur_regs wc rg);
  wr_i1 : Forall int32 rg;
  wr_i2 : Forall int32 (cur_regs wc rg);
  wr_len : (length rg <= 32)%nat;
  wr_sp : option_map shape wp = option_map wshape swp;
  wr_sc : option_map shape wc = option_map wshape swc;
  wr_gp : forall x, wp = Some x -> item_good sc (mem st) x;
  wr_gc : forall x, wc = Some x -> item_good sc (mem st) x }.

Lemma omap_none {A B} (f : A -> B) (g : witem -> B) (x : option A) : option_map f x = option_map g None -> x = None.
Proof. destruct x; [discriminate | reflexivity]. Qed.

Lemma omap_none_r {A B} (f : A -> B) (g : witem -> B) (y : option witem) : option_map f None = option_map g y -> y = None.
Proof. destruct y; [discriminate | reflexivity]. Qed.

Lemma omap_full {A B} (f : A -> B) (g : witem -> B) (x : option A) (y : option witem) :
  option_map f x = option_map g y -> (match x with Some _ => true | None => false end) = is_full y.
Proof. destruct x, y; try discriminate; reflexivity. Qed.

Lemma wu_step l1d sc st rg m wp wc swp swc pw w pw' w' swp' swc' :
  WR l1d sc st rg m wp wc swp swc -> Forall int32 (regs st) ->
  sks_wu pw w swp swc = (pw', w', swp', swc') ->
  exists rg' m' wp' wc',
    wu_cycle rg m pw w (mk_sbus wp wc) = Ok (rg', m', pw', w', mk_sbus wp' wc') /\
    WR l1d sc st rg' m' wp' wc' swp' swc' /\
    ((wu_pending w = true /\ rg' = rg) \/ (wu_pending w = false /\ rg' = cur_regs wc rg)).
Proof.
  intros [(msl & HV & Hmem) Hregs Hi1 Hi2 Hlen Hsp Hsc Hgp Hgc] Hi3. unfold sks_wu, wu_cycle, sbus_get.
  cbn [sb_pending sb_current].
  destruct (wu_pending w) eqn:Ep.
  - intros H. injection H as <- <- <- <-. exists rg, m, wp, wc. split; [reflexivity|]. split; [constructor; eauto | auto].
  - destruct wc as [[exe wr]|].
    + destruct swc as [x|]; [|discriminate]. cbn [option_map shape wshape fst snd] in Hsc. injection Hsc as Hwr Hsa.
      destruct (Hgc _ eq_refl) as (Hrel & Hnone & Hst). cbn [fst snd] in Hrel, Hnone, Hst.
      assert (Hl : length msl = length (mem st)) by (rewrite Hmem, !papply_length; reflexivity).
      destruct (RegisterChange exe) eqn:Erc.
      * (* a register write *)
        assert (Emc : MemoryChange exe = false).
        { destruct (MemoryChange exe) eqn:E; [|reflexivity]. destruct (Hst eq_refl) as [Hc _]. congruence. }
        rewrite Emc in Hsa. rewrite <- Hsa. intros H. injection H as <- <- <- <-.
        do 4 eexists. split; [rewrite Hwr; reflexivity|].
        cbn [cur_regs] in Hi2, Hregs. unfold wapply in Hi2, Hregs. rewrite Erc in Hi2, Hregs.
        split; [|right; split; [reflexivity|]; cbn [cur_regs]; unfold wapply; rewrite Erc; reflexivity].
        constructor; cbn [cur_regs]; auto.
        -- exists msl. split; [exact HV|]. rewrite Hmem. cbn [papply]. rewrite Emc. reflexivity.
        -- rewrite <- Hregs. exact Hi3.
        -- unfold rset. destruct (Register exe =? 0); [exact Hlen | rewrite supd_length; exact Hlen].
        -- discriminate.
      * destruct (MemoryChange exe) eqn:Emc.
        -- (* a store: written to memory, the unit is busy for MemoryAccess cycles *)
           destruct (Hst eq_refl) as (_ & Hne & Hin & Hsl & Hvn).
           rewrite (forallb_in_mem_len _ msl _ (eq_sym Hl)) in Hin.
           destruct (store_miss_ok l1d sc m msl (MemoryChanges exe) HV Hin Hvn) as [Hinm HV'].
           rewrite Hinm. cbn [negb].
           destruct (wi_sa x) as [|s0 sa'] eqn:Esa.
           { exfalso. destruct (MemoryChanges exe); [congruence | discriminate]. }
           intros H. injection H as <- <- <- <-.
           do 4 eexists. split; [reflexivity|].
           cbn [cur_regs] in Hi2, Hregs. unfold wapply in Hi2, Hregs. rewrite Erc in Hi2, Hregs.
           split; [|right; split; [reflexivity|]; cbn [cur_regs]; unfold wapply; rewrite Erc; reflexivity].
           constructor; cbn [cur_regs]; auto.
           ++ exists (mset_all msl (MemoryChanges exe)). split; [exact HV'|]. rewrite Hmem. cbn [papply]. rewrite Emc. reflexivity.
           ++ rewrite <- Hregs. exact Hi3.
           ++ discriminate.
        -- (* neither: nothing to do *)
           rewrite <- Hsa. rewrite <- Hwr, (Hnone eq_refl eq_refl). intros H. injection H as <- <- <- <-.
           do 4 eexists. split; [reflexivity|].
           cbn [cur_regs] in Hi2, Hregs. unfold wapply in Hi2, Hregs. rewrite Erc in Hi2, Hregs.
           split; [|right; split; [reflexivity|]; cbn [cur_regs]; unfold wapply; rewrite Erc; reflexivity].
           constructor; cbn [cur_regs]; auto.
           ++ exists msl. split; [exact HV|]. rewrite Hmem. cbn [papply]. rewrite Emc. reflexivity.
           ++ rewrite <- Hregs. exact Hi3.
           ++ discriminate.
    + apply omap_none_r in Hsc. subst swc. intros H. injection H as <- <- <- <-.
      do 4 eexists. split; [reflexivity|]. cbn [cur_regs papply] in *.
      split; [|right; auto].
      constructor; cbn [cur_regs]; auto; try discriminate; try (exists msl; auto); try (rewrite <- Hregs; exact Hi3).
Qed.

Lemma wr_empty_mem l1d sc st rg m : WR l1d sc st rg m None None None None ->
  regs st = rg /\ VInv l1d sc m (mem st).
Proof. intros [(msl & HV & Hmem) Hregs _ _ _ _ _ _ _]. cbn in Hmem, Hregs. subst msl. auto. Qed.

Lemma drain_sim l1d sc st : forall fuel rg m wp wc swp swc pw w cyc tick w3 c3,
  WR l1d sc st rg m wp wc swp swc -> Forall int32 (regs st) ->
  sks_drain fuel pw w swp swc cyc tick = Some (w3, c3) ->
  exists rg3 m3 pw3,
    m4_drain fuel rg m pw w (mk_sbus wp wc) cyc tick = Ok (rg3, m3, pw3, w3, mk_sbus None None, c3) /\
    WR l1d sc st rg3 m3 None None None None.
Proof.
  induction fuel as [|f IH]; intros rg m wp wc swp swc pw w cyc tick w3 c3 HW Hi3; cbn [sks_drain m4_drain]; [discriminate|].
  assert (Hemp : sbus_is_empty (mk_sbus wp wc) = negb (is_full swp) && negb (is_full swc)).
  { pose proof (omap_full _ _ _ _ (wr_sp _ _ _ _ _ _ _ _ _ HW)) as H1. pose proof (omap_full _ _ _ _ (wr_sc _ _ _ _ _ _ _ _ _ HW)) as H2.
    unfold sbus_is_empty. cbn [sb_pending sb_current]. rewrite <- H1, <- H2. destruct wp, wc; reflexivity. }
  rewrite Hemp, andb_assoc.
  destruct (negb (wu_pending w) && negb (is_full swp) && negb (is_full swc)) eqn:E.
  - intros H. injection H as <- <-. apply andb_prop in E as [E E2]. apply andb_prop in E as [_ E1].
    apply negb_true_iff in E1, E2.
    assert (swp = None) by (destruct swp; [discriminate | reflexivity]).
    assert (swc = None) by (destruct swc; [discriminate | reflexivity]). subst swp swc.
    pose proof (omap_none _ _ _ (wr_sp _ _ _ _ _ _ _ _ _ HW)). pose proof (omap_none _ _ _ (wr_sc _ _ _ _ _ _ _ _ _ HW)). subst wp wc.
    do 3 eexists. split; [reflexivity | exact HW].
  - destruct (sks_wu pw w swp swc) as [[[pw' w'] swp'] swc'] eqn:Ew.
    destruct (wu_step _ _ _ _ _ _ _ _ _ _ _ _ _ _ _ HW Hi3 Ew) as (rg' & m' & wp' & wc' & Ewu & HW' & _).
    rewrite Ewu. cbn [bind]. apply IH; assumption.
Qed.

(* ------------------------------------------------------------------ *)
(* memory: stores to different addresses commute                        *)

Lemma list_eq_mget (m1 m2 : list Z) : length m1 = length m2 ->
  (forall x, 0 <= x < zlen m1 -> mget m1 x = mget m2 x) -> m1 = m2.
Proof.
  intros Hl H. apply (nth_ext m1 m2 0 0 Hl). intros n Hn.
  specialize (H (Z.of_nat n) ltac:(unfold zlen; lia)). unfold mget in H. rewrite Nat2Z.id in H. exact H.
Qed.

Lemma mset_all_swap m bs cs :
  forallb (in_mem m) (map fst bs) = true -> forallb (in_mem m) (map fst cs) = true ->
  (forall a, In a (map fst bs) -> ~ In a (map fst cs)) ->
  mset_all (mset_all m cs) bs = mset_all (mset_all m bs) cs.
Proof.
  intros Hb Hc Hd. apply list_eq_mget; [rewrite !mset_all_length; reflexivity|].
  intros x Hx.
  assert (Hb' : forallb (in_mem (mset_all m cs)) (map fst bs) = true)
    by (rewrite (forallb_in_mem_len _ m); [exact Hb | apply mset_all_length]).
  assert (Hc' : forallb (in_mem (mset_all m bs)) (map fst cs) = true)
    by (rewrite (forallb_in_mem_len _ m); [exact Hc | apply mset_all_length]).
  rewrite (mget_mset_all bs _ x) by (lia || exact Hb'). rewrite (mget_mset_all cs _ x) by (lia || exact Hc').
  destruct (in_dec Z.eq_dec x (map fst bs)) as [Hin|Hn].
  - rewrite (apply_changes_notin cs _ x (Hd x Hin)). rewrite (mget_mset_all bs m x) by (lia || exact Hb).
    apply apply_changes_in. exact Hin.
  - rewrite (apply_changes_notin bs _ x Hn). rewrite (mget_mset_all cs m x) by (lia || exact Hc).
    destruct (in_dec Z.eq_dec x (map fst cs)) as [Hin2|Hn2].
    + apply apply_changes_in. exact Hin2.
    + rewrite !(apply_changes_notin cs _ x Hn2). rewrite (mget_mset_all bs m x) by (lia || exact Hb).
      rewrite (apply_changes_notin bs _ x Hn). reflexivity.
Qed.

Lemma mget_mset_all_other m bs x : 0 <= x -> forallb (in_mem m) (map fst bs) = true -> ~ In x (map fst bs) ->
  mget (mset_all m bs) x = mget m x.
Proof. intros Hx Hb Hn. rewrite (mget_mset_all bs m x Hx Hb). apply apply_changes_notin. exact Hn. Qed.

(* the bytes at addresses that no entry of the write bus stores to *)
Lemma mget_papply sc ms0 x ms a : item_good sc ms0 x -> length ms = length ms0 -> 0 <= a ->
  (MemoryChange (fst x) = true -> ~ In a (map fst (MemoryChanges (fst x)))) ->
  mget (papply (Some x) ms) a = mget ms a.
Proof.
  intros (_ & _ & H3) Hl Ha Hn. destruct x as [exe wr]. cbn [papply fst] in *.
  destruct (MemoryChange exe) eqn:E; [|reflexivity]. destruct (H3 eq_refl) as (_ & _ & Hin & _).
  apply mget_mset_all_other; auto. rewrite (forallb_in_mem_len ms ms0 _ Hl). exact Hin.
Qed.

Lemma store_wr_nil i rr : store_addrs (sinstr_of i) rr <> [] -> instr_WriteRegisters i = [].
Proof. destruct i; cbn [sinstr_of store_addrs]; intros H; try congruence; reflexivity. Qed.

Lemma eu_run_store_miss labels regs mem pw l1d e2 wbus bu i pc bs d2 :
  instr_Run i (rget regs) labels pc [] 0 = Ok (embed (EStore bs)) ->
  get_all l1d (map fst bs) [] = Ok (d2, None) ->
  eu_run labels (mk_env regs mem pw l1d e2 wbus bu) i pc [] =
    inl (Ok (mk_env regs mem (pw_add pw (instr_WriteRegisters i)) d2
                    (mk_eu false (eu_pending_read e2) (eu_addrs e2) (eu_memory e2) (eu_remaining e2) (eu_runner e2))
                    (sbus_add wbus (embed (EStore bs), instr_WriteRegisters i)) bu, eu_none)).
Proof.
  intros H Hg. unfold eu_run. cbn [e_regs e_mem e_pw e_l1d e_eu e_wbus e_bu]. rewrite H.
  cbn [embed Return MemoryChange MemoryChanges PcChange]. rewrite Hg. reflexivity.
Qed.

Lemma eu_cycle_s_full labels regs mem pw l1d ce wbus bu ebus dt la e1 ebus2 dt1 act :
  eu_pending_read ce = false -> eu_memory ce = None -> sbus_can_add wbus = false ->
  sks_eu true ce ebus pw dt la = (e1, ebus2, dt1, act) ->
  act = ANone /\ dt1 = dt /\
  eu_cycle labels (mk_env regs mem pw l1d ce wbus bu) ebus = inl (Ok (mk_env regs mem pw l1d e1 wbus bu, ebus2, eu_none)) /\
  eu_pending_read e1 = false /\ eu_memory e1 = None.
Proof.
  intros Hpr Hm Hadd. unfold sks_eu, eu_cycle, eu_intake, set_rem. cbn [e_eu e_wbus e_regs e_mem e_pw e_l1d e_bu].
  rewrite Hpr, Hadd. cbn [andb negb].
  destruct (eu_processing ce) eqn:Ep.
  - cbn [negb]. destruct (negb (eu_remaining ce - 1 =? 0)); intros H; injection H as <- <- <- <-;
      cbn [eu_pending_read eu_memory]; rewrite ?Hpr, ?Hm; auto.
  - unfold sbus_get. destruct (sb_current ebus) as [[i pc]|].
    + cbn [negb eu_remaining eu_runner eu_processing eu_pending_read eu_addrs eu_memory]. fold (cyc_of i).
      destruct (negb (cyc_of i - 1 =? 0)); intros H; injection H as <- <- <- <-; cbn [eu_pending_read eu_memory]; rewrite ?Hm; auto.
    + cbn [negb]. intros H. injection H as <- <- <- <-. rewrite Hpr, Hm. repeat split; auto; destruct ce; reflexivity.
Qed.

Lemma skm_eu_issue e ebus pw dt la e1 ebus2 dt1 :
  eu_pending_read e = false ->
  skm_eu e ebus pw dt la = (e1, ebus2, dt1, ANone) -> eu_pending_read e1 = true ->
  exists i pc, eu_runner e1 = Some (i, pc) /\ hd_error (q_eu e ++ q_sb ebus) = Some (i, pc) /\
               pw_hazard pw (instr_ReadRegisters i) = false.
Proof.
  intros Hpr. unfold skm_eu, eu_intake, set_rem. rewrite Hpr. unfold q_eu.
  destruct (eu_processing e) eqn:Ep.
  - cbn [negb]. destruct (negb (eu_remaining e - 1 =? 0)).
    + intros H. injection H as <- _ _. cbn [eu_pending_read]. rewrite Hpr. discriminate.
    + destruct (eu_runner e) as [[i pc]|] eqn:Er; [|discriminate].
      destruct (pw_hazard pw (instr_ReadRegisters i)) eqn:Ehz.
      * intros H. injection H as <- _ _. cbn [eu_pending_read]. rewrite Hpr. discriminate.
      * destruct la as [|a0 la']; [discriminate|].
        destruct (snd (a_get_all dt (a0 :: la'))); intros H; injection H as <- _ _; intros _; exists i, pc;
          cbn [eu_runner olist List.app hd_error]; auto.
  - destruct ebus as [ep ec]. unfold sbus_get. cbn [sb_current sb_pending q_sb]. destruct ec as [[i pc]|].
    + cbn [negb eu_remaining eu_runner eu_processing eu_pending_read eu_addrs eu_memory]. fold (cyc_of i).
      destruct (negb (cyc_of i - 1 =? 0)).
      * intros H. injection H as <- _ _. cbn [eu_pending_read]. discriminate.
      * destruct (pw_hazard pw (instr_ReadRegisters i)) eqn:Ehz.
        -- intros H. injection H as <- _ _. cbn [eu_pending_read]. discriminate.
        -- destruct la as [|a0 la']; [discriminate|].
           destruct (snd (a_get_all dt (a0 :: la'))); intros H; injection H as <- _ _; intros _; exists i, pc;
             cbn [eu_runner olist List.app hd_error]; auto.
    + cbn [negb]. intros H. injection H as <- _ _. rewrite Hpr. discriminate.
Qed.

Section SimS.
  Variables (app : list instr) (labels : Z -> option Z).
  Hypothesis Happ : wf_app app.
  Hypothesis Hlab : wf_labels labels.
  Let sp := map sinstr_of app.

  (* the model state [s] is the skeleton [a] plus the values of the sequential state [st] *)
  Inductive RMs (la : list Z) : m4state -> sks -> arch -> Prop :=
  | RMs_intro a rg m l1d sc bu wp wc ce st :
      WR l1d sc st rg m wp wc (x_wp a) (x_wc a) -> s_rec sc = x_dt a ->
      Forall int32 (regs st) -> Forall int8 (mem st) ->
      eu_erase ce = x_eu a ->
      (forall bytes, eu_memory ce = Some bytes -> bytes = map (mget (mem st)) la) ->
      (eu_pending_read ce = true -> eu_memory ce = None -> forall x, In x la -> view sc x = None) ->
      (eu_pending_read ce = true -> wp = None /\
         forall i pc, eu_runner ce = Some (i, pc) -> forall r, In r (instr_ReadRegisters i) -> rget (regs st) r = rget rg r) ->
      RMs la (mk_m4 rg m (x_pw a) (x_l1i a) l1d (x_fu a) (x_dbus a) (x_ebus a) ce (mk_sbus wp wc) (x_wu a) bu) a st.

  (* the end of an iteration in which nothing special (no ret, no flush) happens *)
  Lemma tail_step f cyc la st rg m pw1 l1d sc ce1 wp1 wc bu1 fu1 l1i1 dbus2 ebus2 w swp1 swc pw2 w2 swp2 swc2 e1 l1 l2 :
    WR l1d sc st rg m wp1 wc swp1 swc -> Forall int32 (regs st) -> Forall int8 (mem st) ->
    eu_erase ce1 = e1 ->
    (forall bytes, eu_memory ce1 = Some bytes -> bytes = map (mget (mem st)) la) ->
    (eu_pending_read ce1 = true -> eu_memory ce1 = None -> forall x, In x la -> view sc x = None) ->
    (eu_pending_read ce1 = true -> wp1 = None /\
       forall i pc, eu_runner ce1 = Some (i, pc) -> forall r, In r (instr_ReadRegisters i) -> rget (regs st) r = rget rg r) ->
    sks_wu pw1 w swp1 swc = (pw2, w2, swp2, swc2) ->
    exists s',
      m4_tail f app labels w l1i1 fu1 dbus2 (cyc + 1)
              (inl (Ok (mk_env rg m pw1 l1d ce1 (mk_sbus wp1 wc) bu1, ebus2, eu_none)))
      = (if m4_is_complete s' then m4_finish s' (cyc + 1) else m4run f app labels s' (cyc + 1)) /\
      m4_is_complete s' = sks_complete (mk_sks fu1 l1i1 dbus2 ebus2 e1 pw2 swp2 swc2 w2 (s_rec sc) l1 l2) /\
      RMs la s' (mk_sks fu1 l1i1 dbus2 ebus2 e1 pw2 swp2 swc2 w2 (s_rec sc) l1 l2) st.
  Proof.
    intros HW Hi3 Hm8 He Hb Hu Hrd Ew.
    destruct (wu_step _ _ _ _ _ _ _ _ _ _ _ _ _ _ _ HW Hi3 Ew) as (rg' & m' & wp' & wc' & Ewu & HW' & Hrg).
    exists (mk_m4 rg' m' pw2 l1i1 l1d fu1 dbus2 ebus2 ce1 (mk_sbus wp' wc') w2 bu1).
    split; [|split].
    - unfold m4_tail. cbn [e_regs e_mem e_pw e_l1d e_eu e_wbus e_bu eu_none eo_ret eo_flush]. rewrite Ewu. reflexivity.
    - unfold m4_is_complete, sks_complete.
      cbn [s_fu s_eu s_wu s_dbus s_ebus s_wbus x_fu x_eu x_wu x_dbus x_ebus x_wp x_wc].
      pose proof (omap_full _ _ _ _ (wr_sp _ _ _ _ _ _ _ _ _ HW')) as H1. pose proof (omap_full _ _ _ _ (wr_sc _ _ _ _ _ _ _ _ _ HW')) as H2.
      assert (Hemp : sbus_is_empty (mk_sbus wp' wc') = negb (is_full swp2) && negb (is_full swc2)).
      { rewrite <- H1, <- H2. unfold sbus_is_empty. cbn [sb_pending sb_current]. destruct wp', wc'; reflexivity. }
      rewrite Hemp, <- He, andb_assoc. unfold eu_erase. cbn [eu_processing]. reflexivity.
    - apply (RMs_intro la (mk_sks fu1 l1i1 dbus2 ebus2 e1 pw2 swp2 swc2 w2 (s_rec sc) l1 l2) rg' m' l1d sc bu1 wp' wc' ce1 st); auto.
      intros Hp. destruct (Hrd Hp) as [Hwp1 Hr]. subst wp1.
      assert (Hwp' : wp' = None).
      { pose proof (omap_none_r _ _ _ (wr_sp _ _ _ _ _ _ _ _ _ HW)) as S1.
        assert (S2 : swp2 = None).
        { unfold sks_wu in Ew. destruct (wu_pending w); [injection Ew as _ _ <- _; exact S1|].
          destruct swc as [x|]; [destruct (wi_sa x)|]; injection Ew as _ _ <- _; reflexivity. }
        pose proof (wr_sp _ _ _ _ _ _ _ _ _ HW') as S3. rewrite S2 in S3. apply omap_none in S3. exact S3. }
      split; [exact Hwp'|]. intros i pc Hrun r Hin. subst wp'.
      destruct Hrg as [[_ ->] | [_ ->]]; [apply (Hr i pc Hrun r Hin)|].
      pose proof (wr_regs _ _ _ _ _ _ _ _ _ HW) as R1. cbn [cur_regs] in R1. rewrite R1. reflexivity.
  Qed.

  Lemma completes_out hev a : FInvS app hev a -> sks_complete a = true -> nlen app <= ev_pc hev / 4.
  Proof.
    intros HF Hc. unfold sks_complete in Hc. repeat (apply andb_prop in Hc as [Hc ?]).
    destruct HF as [Hh [n Hq] _ _ _ _ _ _ _ _ _].
    assert (Hn : qlists a = []).
    { unfold qlists, q_parts, q_eu, q_sb. apply negb_true_iff in H4. rewrite H4.
      unfold sbus_is_empty in H1, H2. destruct (sb_pending (x_ebus a)), (sb_current (x_ebus a)); try discriminate.
      destruct (sb_pending (x_dbus a)), (sb_current (x_dbus a)); try discriminate. reflexivity. }
    rewrite Hn in Hq. destruct Hq as [Hq _ Hend _ _]. destruct n; [|discriminate].
    specialize (Hend Hc). replace (ev_pc hev + 4 * Z.of_nat 0) with (ev_pc hev) in Hend by lia. exact Hend.
  Qed.

  Lemma finish_s la s a st hev rest stf cyc :
    RMs la s a st -> FInvS app hev a -> sks_complete a = true -> sexecm app labels st (hev :: rest) stf ->
    m4_finish s cyc = MDone (cyc + MemoryAccess * zlen (x_dt a)) stf.
  Proof.
    intros HR HF Hc HS.
    destruct HR as [a rg m l1d sc bu wp wc ce st HW Hdt Hi3 Hm8 Hce Hbytes Hunc Hrd].
    pose proof (completes_out hev a HF Hc) as Hout.
    destruct (sexecm_out app labels _ _ _ _ HS Hout) as [-> _].
    unfold sks_complete in Hc. repeat (apply andb_prop in Hc as [Hc ?]).
    apply negb_true_iff in H, H0.
    assert (E1 : x_wp a = None) by (destruct (x_wp a); [discriminate | reflexivity]).
    assert (E2 : x_wc a = None) by (destruct (x_wc a); [discriminate | reflexivity]).
    rewrite E1, E2 in HW.
    pose proof (omap_none _ _ _ (wr_sp _ _ _ _ _ _ _ _ _ HW)). pose proof (omap_none _ _ _ (wr_sc _ _ _ _ _ _ _ _ _ HW)). subst wp wc.
    destruct (wr_empty_mem _ _ _ _ _ HW) as [Hregs HV].
    unfold m4_finish. cbn [s_l1d s_mem s_regs]. rewrite (flush_ok _ _ _ _ HV), Hdt. rewrite <- Hregs. destruct st; reflexivity.
  Qed.

  Lemma sks_drain_shift : forall fuel pw w wp wc c tick w3 c3 k,
    sks_drain fuel pw w wp wc c tick = Some (w3, c3) -> sks_drain fuel pw w wp wc (c + k) tick = Some (w3, c3 + k).
  Proof.
    induction fuel as [|f IH]; intros pw w wp wc c tick w3 c3 k; cbn [sks_drain]; [discriminate|].
    destruct (negb (wu_pending w) && negb (is_full wp) && negb (is_full wc)).
    - intros H. injection H as <- <-. reflexivity.
    - destruct (sks_wu pw w wp wc) as [[[pw' w'] wp'] wc']. intros H.
      destruct tick; [replace (c + k + 1) with (c + 1 + k) by lia|]; apply IH; exact H.
  Qed.

  Lemma sim_exec_s f a hev rest st stf fu1 l1i1 dbus2 ebus2 cyc rg m' d' sc' e2 wc bu i bytes :
    WR d' sc' st rg m' None wc None (x_wc a) -> x_wp a = None ->
    Forall int32 (regs st) -> Forall int8 (mem st) ->
    (forall r, In r (instr_ReadRegisters i) -> rget (regs st) r = rget rg r) ->
    0 <= ev_pc hev < 2147483644 -> nth_error app (Z.to_nat (ev_pc hev / 4)) = Some i ->
    bytes = map (mget (mem st)) (ev_la hev) ->
    eu_memory e2 = None -> eu_pending_read e2 = false ->
    (ev_la hev = [] -> exists bu0, bu = bu_assert bu0 i (ev_pc hev)) ->
    sexecm app labels st (hev :: rest) stf ->
    match sks_exec a fu1 l1i1 dbus2 ebus2 (eu_done e2) (s_rec sc') i (ev_pc hev) (hev :: rest) with
    | XStuck => True
    | XFin dc dt =>
        m4_tail f app labels (x_wu a) l1i1 fu1 dbus2 (cyc + 1)
                (eu_post (eu_run labels (mk_env rg m' (x_pw a) d' e2 (mk_sbus None wc) bu) i (ev_pc hev) bytes) ebus2)
        = MDone (cyc + dc + MemoryAccess * zlen dt) stf
    | XStep a' path' dc =>
        exists s' st',
          m4_tail f app labels (x_wu a) l1i1 fu1 dbus2 (cyc + 1)
                  (eu_post (eu_run labels (mk_env rg m' (x_pw a) d' e2 (mk_sbus None wc) bu) i (ev_pc hev) bytes) ebus2)
          = (if m4_is_complete s' then m4_finish s' (cyc + dc) else m4run f app labels s' (cyc + dc)) /\
          m4_is_complete s' = sks_complete a' /\ RMs (nla path') s' a' st' /\ sexecm app labels st' path' stf
    end.
  Proof.
    intros HW Hwp0 Hsi Hm8 Hread Hh Hi Hbytes Hem Hepr Hbu HS.
    pose proof HW as [(msl & HV & Hmem) Hregs Hri Hi2 Hlen _ Hsc _ Hgc]. cbn [cur_regs papply] in Hregs, Hmem.
    assert (Hbu' : exists bu0, ev_la hev = [] -> bu = bu_assert bu0 i (ev_pc hev)).
    { destruct (ev_la hev) as [|x l]; [destruct (Hbu eq_refl) as [b Hb]; exists b; auto | exists bu; discriminate]. }
    clear Hbu. destruct Hbu' as [bu0 Hbu].
    destruct (sexecm_head app labels _ _ _ _ HS) as [Hev _].
    pose proof (ev_of_at app st (ev_pc hev) i Hi) as Hevi. rewrite <- Hev in Hevi.
    assert (Hla : ev_la hev = load_addrs (sinstr_of i) (rget (regs st))) by (rewrite Hevi; reflexivity).
    assert (Hsa : ev_sa hev = store_addrs (sinstr_of i) (rget (regs st))) by (rewrite Hevi; reflexivity).
    pose proof (exec_cases_m app labels Happ Hlab st rg (ev_pc hev) i bu0 Hh Hi Hri Hsi Hm8 Hread) as Hcases. cbv zeta in Hcases.
    rewrite <- Hla, <- Hbytes in Hcases.
    assert (Hl : length msl = length (mem st)) by (rewrite Hmem, papply_length; reflexivity).
    unfold sks_exec. rewrite Z.eqb_refl. cbn [negb].
    inversion HS as [? pc0 ? Hs Hp|? pc0 st' pc' rest' ? Hs Hsl1 Hsl2 HS' Hp]; subst.
    - (* the run halts here: ret *)
      cbn [ev_pc ev_of fst] in Hcases. rewrite Hs in Hcases. destruct Hcases as (-> & Hret & Hl0 & Hrun). rewrite Hret.
      rewrite Hl0 in Hrun |- *. cbn [map] in Hrun |- *.
      rewrite eu_run_ret by exact Hrun. rewrite Hwp0.
      destruct (sks_wu (x_pw a) (x_wu a) None (x_wc a)) as [[[pw2 w2] swp2] swc2] eqn:Ew.
      destruct (sks_drain drain_fuel pw2 w2 swp2 swc2 0 false) as [[w3 c3]|] eqn:Edr; [|exact I].
      cbn [eu_post m4_tail e_regs e_mem e_pw e_l1d e_eu e_wbus e_bu eo_ret eo_flush].
      destruct (wu_step _ _ _ _ _ _ _ _ _ _ _ _ _ _ _ HW Hsi Ew) as (rg' & m1 & wp' & wc' & Ewu & HW' & _). rewrite Ewu.
      pose proof (sks_drain_shift _ _ _ _ _ _ _ _ _ (cyc + 1) Edr) as Edr'. rewrite Z.add_0_l in Edr'.
      destruct (drain_sim _ _ _ _ _ _ _ _ _ _ _ _ _ _ _ _ HW' Hsi Edr') as (rg3 & m3 & pw3 & Ed & HW3).
      unfold drain_fuel in Ed. rewrite Ed.
      destruct (wr_empty_mem _ _ _ _ _ HW3) as [Hregs3 HV3].
      unfold m4_finish. cbn [s_l1d s_mem s_regs]. rewrite (flush_ok _ _ _ _ HV3).
      assert (Hc0 : c3 = 0).
      { clear - Edr. revert Edr. generalize drain_fuel pw2 w2 swp2 swc2.
        induction n as [|n IH]; intros pw w wp wc0; cbn [sks_drain]; [discriminate|].
        destruct (negb (wu_pending w) && negb (is_full wp) && negb (is_full wc0)); [intros H; injection H as _ <-; reflexivity|].
        destruct (sks_wu pw w wp wc0) as [[[? ?] ?] ?]. apply IH. }
      rewrite Hc0, <- Hregs3. destruct st as [r0 m0]; cbn [Seq.regs Seq.mem]. rewrite Z.add_0_l. reflexivity.
    - (* an instruction with a successor *)
      set (hev := ev_of app st pc0) in *. set (nxt := ev_of app st' pc') in *.
      cbn [ev_pc ev_of fst] in Hcases. fold hev in Hcases.
      change (ev_pc hev) with pc0 in *. rewrite Hs in Hcases.
      destruct Hcases as (Hret & Hin & e & Hrun & Hsi' & Hm8' & Hcase). rewrite Hret.
      assert (Hnext : 0 <= pc') by (destruct (sexecm_head app labels _ _ _ _ HS') as [_ Hx]; exact Hx).
      change (ev_pc nxt) with pc'.
      destruct Hcase as [(Hns & Hsa0 & Hr & Hm & Hit & Hrel & Hregs' & Hmem' & Hfl & Hnpc & Hpcl)
                        | (bs & -> & Hl0 & Hne & Hfst & Hinb & Hregs' & Hmem' & ->)].
      + (* not a store *)
        rewrite Hsa, Hsa0.
        rewrite (eu_run_reg_b _ _ _ _ _ _ _ _ _ _ _ _ Hrun Hr Hm).
        specialize (Hfl Hnext).
        assert (Hfl' : snd (flush_dec bu (embed e)) = sk_flush i pc0 pc').
        { rewrite <- Hfl. destruct (PcChange (embed e)) eqn:Epc.
          - rewrite (Hbu (Hpcl eq_refl)). reflexivity.
          - unfold flush_dec. rewrite Epc. reflexivity. }
        clear Hfl. rename Hfl' into Hfl.
        set (wr := instr_WriteRegisters i) in *.
        assert (HW1 : WR d' sc' st' rg m' (Some (embed e, wr)) wc (Some (wr, [], nnil (x_l1 a))) (x_wc a)).
        { destruct Hit as [Hit1 Hit2]. cbn [fst snd] in Hit1, Hit2.
          constructor.
          - exists msl. split; [exact HV|]. rewrite Hmem', Hmem. cbn [papply]. rewrite Hit1. reflexivity.
          - rewrite Hregs', Hregs. reflexivity.
          - exact Hri.
          - exact Hi2.
          - exact Hlen.
          - unfold shape, wshape, wi_wr, wi_sa. cbn [option_map fst snd]. rewrite Hit1. reflexivity.
          - exact Hsc.
          - intros x Hx. injection Hx as <-. split; [exact Hrel|]. cbn [fst snd]. split; [intros _; exact Hit2 | rewrite Hit1; discriminate].
          - intros x Hx. rewrite Hmem'. apply Hgc. exact Hx. }
        unfold sks_next.
        destruct (sks_wu (pw_add (x_pw a) wr) (x_wu a) (Some (wr, [], nnil (x_l1 a))) (x_wc a)) as [[[pw2 w2] swp2] swc2] eqn:Ew.
        cbn [x_pw x_wu x_wp x_wc x_l1 x_l2].
        cbn [eu_post e_regs e_mem e_pw e_l1d e_eu e_wbus e_bu]. rewrite sbus_add_mk. rewrite Hfl.
        destruct (sk_flush i pc0 pc') eqn:Esf.
        * (* the pipeline is flushed: the write unit drains *)
          destruct (sks_drain drain_fuel pw2 w2 swp2 swc2 1 true) as [[w3 c3]|] eqn:Edr; [|exact I].
          unfold m4_tail. cbn [e_regs e_mem e_pw e_l1d e_eu e_wbus e_bu eo_ret eo_flush eo_pc].
          destruct (wu_step _ _ _ _ _ _ _ _ _ _ _ _ _ _ _ HW1 Hsi' Ew) as (rg' & m1 & wp' & wc' & Ewu & HW' & _).
          unfold wb_item in *. rewrite Ewu.
          pose proof (sks_drain_shift _ _ _ _ _ _ _ _ _ cyc Edr) as Edr'. replace (1 + cyc) with (cyc + 1) in Edr' by lia.
          destruct (drain_sim _ _ _ _ _ _ _ _ _ _ _ _ _ _ _ _ HW' Hsi' Edr') as (rg3 & m3 & pw3 & Ed & HW3).
          unfold drain_fuel in Ed. unfold wb_item in *. rewrite Ed. rewrite (Hnpc eq_refl).
          eexists _, st'. split; [|split; [|split; [|exact HS']]].
          -- replace (c3 + cyc) with (cyc + c3) by lia. symmetry. apply if_false_r. reflexivity.
          -- reflexivity.
          -- cbn [nla]. fold nxt.
             apply (RMs_intro (ev_la nxt)
                      (mk_sks (mk_fu pc' (fu_remaining fu1) false false) l1i1 sbus_empty sbus_empty (eu_done e2) zero_pw None None w3
                              (s_rec sc') [] (nnil (x_l1 a)))
                      rg3 m3 d' sc' _ None None (eu_done e2) st'); auto; try discriminate;
               try solve [intros b Hb; cbn in Hb; rewrite Hem in Hb; discriminate];
               try solve [intros Hp; cbn in Hp; rewrite Hepr in Hp; discriminate].
             apply eu_erase_id. exact Hem.
        * destruct (tail_step f cyc (ev_la nxt) st' rg m' (pw_add (x_pw a) wr) d' sc' (eu_done e2) (Some (embed e, wr)) wc
                              (fst (flush_dec bu (embed e))) fu1 l1i1 dbus2 ebus2 (x_wu a) _ _ pw2 w2 swp2 swc2 (eu_done e2) [] (nnil (x_l1 a))
                              HW1 Hsi' Hm8') as (s' & Et & Hc & HR'); auto.
          -- apply eu_erase_id. exact Hem.
          -- intros b Hb. cbn in Hb. rewrite Hem in Hb. discriminate.
          -- intros Hp. cbn in Hp. rewrite Hepr in Hp. discriminate.
          -- intros Hp. cbn in Hp. rewrite Hepr in Hp. discriminate.
          -- exists s', st'. split; [exact Et|]. split; [exact Hc|]. split; [exact HR' | exact HS'].
      + (* a store *)
        rewrite Hsa in Hsl2 |- *. rewrite <- Hfst in Hsl2 |- *.
        assert (Hcs : map fst bs = consec (hd 0 (map fst bs)) (length bs)).
        { rewrite <- (map_length fst bs). rewrite Hfst.
          apply (store_addrs_consec _ _ (mem st)); [rewrite <- Hfst; exact Hinb|].
          pose proof (v_small _ _ _ _ HV) as Hs0. unfold zlen in *. rewrite <- Hl. exact Hs0. }
        destruct (pc_next app Happ pc0 i ltac:(lia) Hi) as [Hpc4 _]. rewrite Hpc4, Z.eqb_refl. cbn [negb].
        assert (Hbytes0 : map (mget (mem st)) (ev_la hev) = []) by (rewrite Hl0; reflexivity).
        rewrite Hbytes0 in Hrun |- *.
        assert (Hinl : forallb (in_mem msl) (map fst bs) = true) by (rewrite (forallb_in_mem_len _ (mem st) _ Hl); exact Hinb).
        assert (Hwr0 : instr_WriteRegisters i = []).
        { apply (store_wr_nil i (rget (regs st))). rewrite <- Hfst. destruct bs; [congruence | discriminate]. }
        destruct (map fst bs) as [|s0 sa'] eqn:Emf; [destruct bs; [congruence | discriminate]|].
        destruct (snd (a_get_all (s_rec sc') (s0 :: sa'))) eqn:Ehit.
        * (* it hits in the L1D *)
          rewrite <- Emf in Hcs, Hsl2, Hinl, Ehit.
          destruct (store_hit_m d' sc' m' msl bs _ HV Hne Hcs Hinl Hsl2 Ehit)
            as (c1 & vs & v0 & t & c' & sc3 & Eg & Es & Ew & HV3 & Hr3).
          rewrite (eu_run_store_hit _ _ _ _ _ _ _ _ _ _ _ _ _ _ _ _ _ Hrun Eg Es Ew).
          assert (Hdis : forall x0, wc = Some x0 -> MemoryChange (fst x0) = true ->
                           forall a0, In a0 (map fst bs) -> ~ In a0 (map fst (MemoryChanges (fst x0)))).
          { intros x0 Hx0 Hmc a0 Ha0 Hin0. destruct (Hgc x0 Hx0) as (_ & _ & H3). destruct (H3 Hmc) as (_ & _ & _ & _ & Hvn).
            specialize (Hvn a0 Hin0).
            assert (Hall : forallb (fun a1 => is_some (view sc' a1)) (map fst bs) = true).
            { destruct (get_all_ok sc' (map fst bs) d' sc' [] (v_D _ _ _ _ HV) ltac:(auto)) as (? & ? & _ & _ & _ & _ & Hhh). rewrite Hhh. exact Ehit. }
            rewrite forallb_forall in Hall. specialize (Hall a0 Ha0). rewrite Hvn in Hall. discriminate. }
          assert (HW1 : WR c' sc3 st' rg m' None wc None (x_wc a)).
          { constructor.
            - exists (mset_all msl bs). split; [exact HV3|]. rewrite Hmem', Hmem. cbn [papply].
              destruct wc as [[exe wr]|]; cbn [papply]; [|reflexivity].
              destruct (MemoryChange exe) eqn:Emc; [|reflexivity].
              destruct (Hgc _ eq_refl) as (_ & _ & H3). cbn [fst] in H3. destruct (H3 Emc) as (_ & _ & Hinc & _).
              apply mset_all_swap; auto.
              + rewrite (forallb_in_mem_len _ (mem st) _ Hl). exact Hinc.
              + intros a0 Ha0. apply (Hdis _ eq_refl Emc a0 Ha0).
            - rewrite Hregs'. exact Hregs.
            - exact Hri.
            - exact Hi2.
            - exact Hlen.
            - reflexivity.
            - exact Hsc.
            - intros x Hx. discriminate.
            - intros x Hx. apply (item_good_len sc3 (mem st)); [rewrite Hmem', mset_all_length; reflexivity|].
              apply (item_good_sc d' sc' c' sc3 _ x (v_D _ _ _ _ HV) (v_D _ _ _ _ HV3)); [|apply Hgc; exact Hx].
              intros a0 _ _ Hv0. apply (view_none_sub d' sc' c' sc3 a0 (v_D _ _ _ _ HV) (v_D _ _ _ _ HV3) Hv0).
              intros b Hb. left. rewrite Hr3 in Hb. apply a_get_all_in in Hb. exact Hb. }
          unfold sks_next. rewrite Hwp0.
          destruct (sks_wu (x_pw a) (x_wu a) None (x_wc a)) as [[[pw2 w2] swp2] swc2] eqn:Ewu.
          cbn [eu_post e_regs e_mem e_pw e_l1d e_eu e_wbus e_bu].
          destruct (tail_step f cyc (ev_la nxt) st' rg m' (x_pw a) c' sc3 (eu_done e2) None wc
                              bu fu1 l1i1 dbus2 ebus2 (x_wu a) _ _ pw2 w2 swp2 swc2 (eu_done e2) (x_l1 a) (x_l2 a)
                              HW1 Hsi' Hm8') as (s' & Et & Hc & HR'); auto.
          -- apply eu_erase_id. exact Hem.
          -- intros b Hb. cbn in Hb. rewrite Hem in Hb. discriminate.
          -- intros Hp. cbn in Hp. rewrite Hepr in Hp. discriminate.
          -- intros Hp. cbn in Hp. rewrite Hepr in Hp. discriminate.
          -- rewrite Hr3, Emf in Hc, HR'. exists s', st'. split; [exact Et|]. split; [exact Hc|]. split; [exact HR' | exact HS'].
        * (* it misses: the store is put on the write bus *)
          rewrite <- Emf in Hsl2.
          assert (Hinl' : forallb (in_mem msl) (s0 :: sa') = true) by exact Hinl.
          assert (Hsl' : same_line (s0 :: sa') = true) by (rewrite <- Emf; exact Hsl2).
          destruct (load_issue_ok d' sc' m' msl s0 sa' HV Hinl' Hsl') as (c1 & sc1 & Eg & HV1 & Hr1 & Hu).
          rewrite Ehit in Eg. specialize (Hu Ehit). rewrite <- Emf in Eg.
          rewrite (eu_run_store_miss _ _ _ _ _ _ _ _ _ _ _ _ Hrun Eg). rewrite Hwr0.
          assert (HW1 : WR c1 sc1 st' rg m' (Some (embed (EStore bs), [])) wc (Some ([], s0 :: sa', nnil (x_l1 a))) (x_wc a)).
          { constructor.
            - exists msl. split; [exact HV1|]. rewrite Hmem', Hmem. reflexivity.
            - rewrite Hregs', Hregs. reflexivity.
            - exact Hri.
            - exact Hi2.
            - exact Hlen.
            - unfold shape, wshape, wi_wr, wi_sa. cbn [option_map fst snd embed MemoryChange MemoryChanges]. rewrite Emf. reflexivity.
            - exact Hsc.
            - intros x Hx. injection Hx as <-. split; [intros Hc; discriminate Hc|]. cbn [fst snd embed MemoryChange MemoryChanges RegisterChange].
              split; [discriminate|]. intros _. split; [reflexivity|]. split; [exact Hne|].
              split; [rewrite Emf, Hmem', (forallb_in_mem_len _ (mem st)); [exact Hinb | apply mset_all_length]|].
              split; [exact Hsl2|]. rewrite Emf. exact Hu.
            - intros x Hx. apply (item_good_len sc1 (mem st)); [rewrite Hmem', mset_all_length; reflexivity|].
              apply (item_good_sc d' sc' c1 sc1 _ x (v_D _ _ _ _ HV) (v_D _ _ _ _ HV1)); [|apply Hgc; exact Hx].
              intros a0 _ _ Hv0. apply (view_none_sub d' sc' c1 sc1 a0 (v_D _ _ _ _ HV) (v_D _ _ _ _ HV1) Hv0).
              intros b Hb. left. rewrite Hr1 in Hb. apply a_get_all_in in Hb. exact Hb. }
          unfold sks_next.
          change (pw_add (x_pw a) []) with (x_pw a).
          destruct (sks_wu (x_pw a) (x_wu a) (Some ([], s0 :: sa', nnil (x_l1 a))) (x_wc a)) as [[[pw2 w2] swp2] swc2] eqn:Ewu.
          cbn [eu_post e_regs e_mem e_pw e_l1d e_eu e_wbus e_bu]. rewrite sbus_add_mk.
          destruct (tail_step f cyc (ev_la nxt) st' rg m' (x_pw a) c1 sc1 (eu_done e2) (Some (embed (EStore bs), [])) wc
                              bu fu1 l1i1 dbus2 ebus2 (x_wu a) _ _ pw2 w2 swp2 swc2 (eu_done e2) (s0 :: sa') (nnil (x_l1 a))
                              HW1 Hsi' Hm8') as (s' & Et & Hc & HR'); auto.
          -- apply eu_erase_id. exact Hem.
          -- intros b Hb. cbn in Hb. rewrite Hem in Hb. discriminate.
          -- intros Hp. cbn in Hp. rewrite Hepr in Hp. discriminate.
          -- intros Hp. cbn in Hp. rewrite Hepr in Hp. discriminate.
          -- rewrite Hr1 in Hc, HR'. exists s', st'. split; [exact Et|]. split; [exact Hc|]. split; [exact HR' | exact HS'].
  Qed.

  (* ---------------------------------------------------------------- *)
  (* helpers for one iteration                                          *)

  Lemma line_disjoint sa la a b : same_line sa = true -> same_line la = true -> same_line_as sa la = false ->
    In a sa -> In b la -> a / 64 <> b / 64.
  Proof.
    intros Hs Hl Hd Ha Hb. destruct sa as [|s0 sa']; [destruct Ha|]. destruct la as [|l0 la']; [destruct Hb|].
    pose proof (same_line_spec _ _ _ Hs Ha). pose proof (same_line_spec _ _ _ Hl Hb).
    cbn [same_line_as] in Hd. apply Z.eqb_neq in Hd. lia.
  Qed.

  Lemma reads_agree_s pw rg wc st i :
    (length rg <= 32)%nat -> pw = pwof (cur_wr wc) ->
    (forall x, wc = Some x -> wb_rel (fst x) (snd x)) ->
    regs st = cur_regs wc rg ->
    pw_hazard pw (instr_ReadRegisters i) = false ->
    forall r, In r (instr_ReadRegisters i) -> rget (regs st) r = rget rg r.
  Proof.
    intros Hlen Hpw Hitem Hregs Hhz r Hr. rewrite Hregs.
    destruct wc as [[exe wr]|]; [|reflexivity]. cbn [cur_regs].
    pose proof (Hitem _ eq_refl) as Hrel. cbn [fst snd] in Hrel.
    apply (rget_wapply rg exe wr r Hlen Hrel).
    cbn [cur_wr option_map snd] in Hpw. rewrite <- Hpw. eapply pw_hazard_false; eassumption.
  Qed.

  Lemma shape_wr (wc : option wb_item) swc : option_map shape wc = option_map wshape swc -> cur_wr wc = option_map wi_wr swc.
  Proof.
    destruct wc as [[exe wr]|], swc as [y|]; cbn [option_map cur_wr]; try discriminate; [|reflexivity].
    unfold shape, wshape. cbn [fst snd]. intros H. injection H as H _. rewrite H. reflexivity.
  Qed.

  Lemma shape_sa (x : wb_item) y : Some (shape x) = Some (wshape y) ->
    wi_sa y = (if MemoryChange (fst x) then map fst (MemoryChanges (fst x)) else []).
  Proof. unfold shape, wshape. intros H. injection H as _ H. symmetry. exact H. Qed.

  (* the bytes of a load do not depend on the stores that are still on the write bus *)
  Lemma inflight_other sc ms0 (wc : option wb_item) swc la msl :
    option_map shape wc = option_map wshape swc ->
    (forall x, wc = Some x -> item_good sc ms0 x) -> length msl = length ms0 ->
    same_line la = true ->
    (forall y, swc = Some y -> same_line_as (wi_sa y) la = false) ->
    forall a, In a la -> 0 <= a -> mget (papply wc msl) a = mget msl a.
  Proof.
    intros Hs Hg Hl Hsl Hd a Ha Ha0. destruct wc as [x|]; [|reflexivity].
    destruct swc as [y|]; [|discriminate]. cbn [option_map] in Hs.
    apply (mget_papply sc ms0 x msl a (Hg x eq_refl) Hl Ha0).
    intros Hm Hin. pose proof (shape_sa x y Hs) as Hsa. rewrite Hm in Hsa.
    destruct (Hg x eq_refl) as (_ & _ & H3). destruct (H3 Hm) as (_ & _ & _ & Hsls & _).
    rewrite <- Hsa in Hin, Hsls.
    apply (line_disjoint (wi_sa y) la a a Hsls Hsl (Hd y eq_refl) Hin Ha). reflexivity.
  Qed.

  Lemma map_mget_ext (m1 m2 : list Z) l : (forall a, In a l -> mget m1 a = mget m2 a) -> map (mget m1) l = map (mget m2) l.
  Proof. intros H. apply map_ext_in. exact H. Qed.

  Lemma erase_pr ce : eu_pending_read (eu_erase ce) = eu_pending_read ce.
  Proof. reflexivity. Qed.

  Lemma sim_pre_s f a hev rest cyc s st stf :
    RMs (ev_la hev) s a st -> FInvS app hev a -> ns_inv a (hev :: rest) -> sexecm app labels st (hev :: rest) stf ->
    match sks_pre app a (hev :: rest) with
    | XStuck => True
    | XFin dc dt => m4run (S f) app labels s cyc = MDone (cyc + dc + MemoryAccess * zlen dt) stf
    | XStep a' path' dc =>
        exists s' st',
          m4run (S f) app labels s cyc
          = (if m4_is_complete s' then m4_finish s' (cyc + dc) else m4run f app labels s' (cyc + dc)) /\
          m4_is_complete s' = sks_complete a' /\ RMs (nla path') s' a' st' /\ sexecm app labels st' path' stf
    end.
  Proof.
    intros HR HF Hns HS.
    destruct HR as [a rg m l1d sc bu wp wc ce st HW Hdt Hsi Hm8 Hce Hbytes Hunc Hrd].
    pose proof HF as [Hh _ _ _ Hok Hpr Hmiss HI2 _ HWI _].
    rewrite m4run_S. cbn [s_fu s_l1i s_dbus s_ebus s_regs s_mem s_pw s_l1d s_eu s_wbus s_bu s_wu].
    destruct (fu_cycle app (x_fu a) (x_l1i a) (x_dbus a)) as [[[fu1 l1i1] dbus1]| |] eqn:Ef;
      [|unfold sks_pre; rewrite Ef; exact I|unfold sks_pre; rewrite Ef; exact I].
    destruct (du_cycle app dbus1 (x_ebus a)) as [[dbus2 ebus1]| |] eqn:Ed;
      [|unfold sks_pre; rewrite Ef, Ed; exact I|unfold sks_pre; rewrite Ef, Ed; exact I].
    destruct (sks_eu (is_full (x_wp a)) (x_eu a) ebus1 (x_pw a) (x_dt a) (ev_la hev)) as [[[e1 ebus2] dt1] act] eqn:Ee.
    destruct (fronts_flow app Happ hev a _ _ _ _ _ _ _ _ _ HF Ef Ed Ee)
      as (_ & _ & Hnst & [n' Hq'] & Hent' & Hok1 & Hmiss1 & Hex & Hfull & Hwait).
    pose proof HW as [(msl & HV & Hmem) Hregs Hri Hi2 Hlen Hsp Hsc Hgp Hgc].
    assert (Hl : length msl = length (mem st)) by (rewrite Hmem, !papply_length; reflexivity).
    pose proof (sexecm_head app labels _ _ _ _ HS) as [Hev Hpc0].
    destruct (eu_pending_read ce) eqn:Epr.
    - (* a load is in flight *)
      assert (Hprs : eu_pending_read (x_eu a) = true) by (rewrite <- Hce; exact Epr).
      pose proof (Hpr Hprs) as Hwp0.
      assert (Hwpn : wp = None) by (rewrite Hwp0 in Hsp; apply omap_none in Hsp; exact Hsp). subst wp.
      cbn [cur_regs papply] in Hregs, Hmem.
      destruct (Hmiss Hprs) as [Hlane Haddrs].
      destruct (sexecm_loads app labels _ _ _ _ HS Hlane) as [Hin Hsl].
      assert (Ee' : skm_eu (eu_erase ce) ebus1 (x_pw a) (x_dt a) (ev_la hev) = (e1, ebus2, dt1, act)).
      { rewrite Hce. unfold sks_eu in Ee. rewrite Hprs, andb_false_r in Ee. exact Ee. }
      pose proof (eu_cycle_m_pending labels rg m (x_pw a) l1d ce (mk_sbus None wc) bu ebus1 (x_dt a) (ev_la hev) e1 ebus2 dt1 act Epr Ee') as Heu.
      destruct act as [|i pc|]; [| |congruence].
      + (* still waiting *)
        destruct Heu as (Eeu & He1 & Hd1 & Heb). subst e1 dt1 ebus2. rewrite Eeu.
        rewrite (sks_pre_none app a hev rest _ _ _ _ _ _ _ _ Ef Ed Ee). unfold sks_next.
        destruct (sks_wu (x_pw a) (x_wu a) (x_wp a) (x_wc a)) as [[[pw2 w2] swp2] swc2] eqn:Ew.
        rewrite Hwp0 in HW.
        destruct (tail_step f cyc (ev_la hev) st rg m (x_pw a) l1d sc (wait_eu ce) None wc bu fu1 l1i1 dbus2 ebus1 (x_wu a)
                            None (x_wc a) pw2 w2 swp2 swc2 (eu_erase (wait_eu ce)) (x_l1 a) (x_l2 a) HW Hsi Hm8 eq_refl)
          as (s' & Et & Hc & HR').
        * intros b Hb. apply Hbytes. exact Hb.
        * intros _ Hn. apply (Hunc eq_refl Hn).
        * intros _. split; [reflexivity|]. intros i pc Hrun r Hinr. apply (proj2 (Hrd eq_refl) i pc Hrun r Hinr).
        * rewrite <- Hwp0. exact Ew.
        * rewrite Hdt in Hc, HR'. exists s', st. split; [exact Et|]. split; [exact Hc|]. split; [exact HR' | exact HS].
      + (* the load completes and the instruction is executed *)
        destruct Heu as (Heb & He1 & Eeu). subst ebus2 e1. rewrite Eeu.
        destruct Hex as (_ & _ & Hdt1).
        cbn [act_q map snd List.app] in Hq', Hent'.
        destruct (fq_head app _ _ _ _ _ Hq') as (-> & mm & ->).
        inversion Hent' as [|x l [_ Hi] _]; subst x l. cbn [fst snd] in Hi.
        rewrite (sks_pre_exec_eq app a hev rest _ _ _ _ _ _ _ _ _ _ Ef Ed Ee).
        set (e2 := mk_eu (eu_processing ce) false (eu_addrs ce) None (eu_remaining ce - 1) (eu_runner ce)).
        rewrite Hwp0 in HW.
        assert (Hgot : exists d' sc' m', load_got l1d m ce = Ok (d', m', map (mget (mem st)) (ev_la hev)) /\
                         WR d' sc' st rg m' None wc None (x_wc a) /\ s_rec sc' = dt1).
        { unfold load_got. rewrite Hdt1. unfold dtal. rewrite Hprs.
          assert (Hme : eu_memory (x_eu a) = option_map (fun _ => []) (eu_memory ce)) by (rewrite <- Hce; reflexivity).
          rewrite Hme. destruct (eu_memory ce) as [bytes|] eqn:Em.
          - exists l1d, sc, m. rewrite (Hbytes bytes eq_refl). cbn [option_map]. auto.
          - cbn [option_map].
            assert (Ha : eu_addrs ce = ev_la hev) by (rewrite <- Haddrs; [rewrite <- Hce; reflexivity | rewrite Hme; reflexivity]).
            rewrite Ha. destruct (ev_la hev) as [|a0 t] eqn:Ela; [congruence|].
            assert (Hin' : forallb (in_mem msl) (a0 :: t) = true) by (rewrite (forallb_in_mem_len _ (mem st) _ Hl); exact Hin).
            destruct (load_complete_ok l1d sc m msl a0 t HV Hin' Hsl (Hunc eq_refl eq_refl)) as (c3 & sc3 & m3 & E3 & HV3 & Hr3).
            assert (HI2' : forall y, x_wc a = Some y -> same_line_as (wi_sa y) (a0 :: t) = false).
            { intros y Hy. apply (HI2 Hprs); [rewrite Hme; reflexivity | exact Hy]. }
            exists c3, sc3, m3. split.
            { rewrite E3. do 2 f_equal. apply map_mget_ext. intros x Hx. rewrite Hmem. symmetry.
              apply (inflight_other sc (mem st) wc (x_wc a) (a0 :: t) msl Hsc Hgc Hl Hsl HI2' x Hx).
              rewrite forallb_forall in Hin. specialize (Hin x Hx). apply in_mem_range in Hin. lia. }
            split; [|rewrite Hr3, Hdt; reflexivity].
            constructor.
            + exists msl. auto.
            + exact Hregs.
            + exact Hri.
            + exact Hi2.
            + exact Hlen.
            + reflexivity.
            + exact Hsc.
            + intros x Hx. discriminate.
            + intros x Hx.
              apply (item_good_sc l1d sc c3 sc3 _ x (v_D _ _ _ _ HV) (v_D _ _ _ _ HV3)); [|apply Hgc; exact Hx].
              intros a1 Emc Hina Hv1. apply (view_none_sub l1d sc c3 sc3 a1 (v_D _ _ _ _ HV) (v_D _ _ _ _ HV3) Hv1).
              intros b Hb. rewrite Hr3 in Hb. apply a_get_all_in in Hb. apply a_fill_in in Hb. destruct Hb as [->|Hb]; [right | left; exact Hb].
              apply covers_other_line.
              destruct (x_wc a) as [y|] eqn:Exc; [|subst wc; discriminate]. subst wc. cbn [option_map] in Hsc.
              destruct (Hgc x eq_refl) as (_ & _ & H3). destruct (H3 Emc) as (_ & _ & _ & Hsls & _).
              pose proof (shape_sa x y Hsc) as Hsay. rewrite Emc in Hsay. rewrite <- Hsay in Hsls, Hina.
              apply (line_disjoint (wi_sa y) (a0 :: t) a1 a0 Hsls Hsl (HI2' y eq_refl) Hina). left; reflexivity. }
        destruct Hgot as (d' & sc' & m' & -> & HW' & Hdt').
        rewrite <- Hdt'.
        replace (eu_done (mk_eu (eu_processing (eu_erase ce)) false (eu_addrs (eu_erase ce)) None (eu_remaining (eu_erase ce) - 1) (eu_runner (eu_erase ce))))
          with (eu_done e2) by reflexivity.
        apply (sim_exec_s f a hev rest st stf fu1 l1i1 dbus2 ebus1 cyc rg m' d' sc' e2 wc bu i _ HW' Hwp0 Hsi Hm8);
          auto; try discriminate.
        * assert (Hrun : eu_runner ce = Some (i, ev_pc hev)).
          { unfold skm_eu in Ee'. cbn [eu_erase eu_pending_read eu_remaining eu_runner] in Ee'. rewrite Epr in Ee'.
            destruct (negb (eu_remaining ce - 1 =? 0)); [discriminate|].
            destruct (eu_runner ce) as [[i0 pc0]|]; [|discriminate].
            assert (Ha : AExec i0 pc0 = AExec i (ev_pc hev)) by congruence. injection Ha as -> ->. reflexivity. }
          exact (proj2 (Hrd eq_refl) i (ev_pc hev) Hrun).
        * intros H0. congruence.
    - (* no load in flight *)
      assert (Hprs : eu_pending_read (x_eu a) = false) by (rewrite <- Hce; exact Epr).
      destruct Hok as (_ & _ & Hmem0).
      assert (Hmc : eu_memory ce = None) by (apply erase_mem_none; rewrite Hce; apply Hmem0; exact Hprs).
      assert (Hcee : x_eu a = ce) by (rewrite <- Hce; apply eu_erase_id; exact Hmc).
      pose proof (omap_full _ _ _ _ Hsp) as Hfw.
      destruct (is_full (x_wp a)) eqn:Efl.
      + (* the write bus is full: the execute unit stalls *)
        assert (Ee0 : sks_eu (is_full (x_wp a)) (x_eu a) ebus1 (x_pw a) (x_dt a) (ev_la hev) = (e1, ebus2, dt1, act))
          by (rewrite Efl; exact Ee).
        destruct wp as [xw|]; [|discriminate].
        rewrite Hcee in Ee.
        destruct (eu_cycle_s_full labels rg m (x_pw a) l1d ce (mk_sbus (Some xw) wc) bu ebus1 (x_dt a) (ev_la hev) e1 ebus2 dt1 act
                    Epr Hmc eq_refl Ee) as (Hact & Hd1 & Eeu & Hp1 & Hm1). subst act dt1.
        rewrite Eeu. rewrite (sks_pre_none app a hev rest _ _ _ _ _ _ _ _ Ef Ed Ee0). unfold sks_next.
        destruct (sks_wu (x_pw a) (x_wu a) (x_wp a) (x_wc a)) as [[[pw2 w2] swp2] swc2] eqn:Ew.
        destruct (tail_step f cyc (ev_la hev) st rg m (x_pw a) l1d sc e1 (Some xw) wc bu fu1 l1i1 dbus2 ebus2 (x_wu a)
                            (x_wp a) (x_wc a) pw2 w2 swp2 swc2 e1 (x_l1 a) (x_l2 a) HW Hsi Hm8) as (s' & Et & Hc & HR').
        * apply eu_erase_id. exact Hm1.
        * intros b Hb. rewrite Hm1 in Hb. discriminate.
        * intros Hp. rewrite Hp1 in Hp. discriminate.
        * intros Hp. rewrite Hp1 in Hp. discriminate.
        * exact Ew.
        * rewrite Hdt in Hc, HR'. exists s', st. split; [exact Et|]. split; [exact Hc|]. split; [exact HR' | exact HS].
      + assert (Ee0 : sks_eu (is_full (x_wp a)) (x_eu a) ebus1 (x_pw a) (x_dt a) (ev_la hev) = (e1, ebus2, dt1, act))
          by (rewrite Efl; exact Ee).
        assert (Hwp0 : x_wp a = None) by (destruct (x_wp a); [discriminate Efl | reflexivity]).
        destruct wp as [xw|]; [discriminate|].
        cbn [cur_regs papply] in Hregs, Hmem.
        unfold sks_eu in Ee. cbn [andb] in Ee. rewrite Hcee in Ee.
        rewrite Hwp0 in HW.
        assert (Hpw : x_pw a = pwof (cur_wr wc)).
        { rewrite (w_pw _ _ _ _ _ _ HWI), Hwp0, (shape_wr wc (x_wc a) Hsc). reflexivity. }
        assert (Hrelc : forall x, wc = Some x -> wb_rel (fst x) (snd x)) by (intros x Hx; apply (Hgc x Hx)).
        assert (Hmr : forall i pc, hd_error (q_eu ce ++ q_sb ebus1) = Some (i, pc) ->
                  pw_hazard (x_pw a) (instr_ReadRegisters i) = false -> instr_MemoryRead i (rget rg) 0 = ev_la hev).
        { intros i pc Hhd Hhz. rewrite <- Hcee in Hhd.
          destruct (head_entry_s app Happ hev a _ _ _ _ _ i pc HF Ef Ed Hhd) as [-> Hi].
          rewrite memory_read_exact.
          pose proof (reads_agree_s (x_pw a) rg wc st i Hlen Hpw Hrelc Hregs Hhz) as Hread.
          rewrite read_registers_exact in Hread.
          destruct (spec_reads_sound (sinstr_of i) (rget (regs st)) (rget rg) labels 0 [] Hread) as (_ & Hla & _).
          rewrite <- Hla. rewrite Hev, (ev_of_at app st (ev_pc hev) i Hi). reflexivity. }
        assert (Hga : exists d1 sc1, ev_la hev <> [] ->
                  get_all l1d (ev_la hev) [] = Ok (d1, if snd (a_get_all (x_dt a) (ev_la hev)) then Some (map (mget msl) (ev_la hev)) else None) /\
                  VInv d1 sc1 m msl /\ s_rec sc1 = fst (a_get_all (x_dt a) (ev_la hev)) /\
                  (snd (a_get_all (x_dt a) (ev_la hev)) = false -> forall x, In x (ev_la hev) -> view sc1 x = None) /\
                  (snd (a_get_all (x_dt a) (ev_la hev)) = true -> forall x, In x (ev_la hev) -> view sc x <> None) /\
                  same_line (ev_la hev) = true /\ forallb (in_mem (mem st)) (ev_la hev) = true).
        { destruct (ev_la hev) as [|a0 t] eqn:Ela.
          - exists l1d, sc. intros H0. congruence.
          - destruct (sexecm_loads app labels _ _ _ _ HS ltac:(rewrite Ela; discriminate)) as [Hin Hsl]. rewrite Ela in Hin, Hsl.
            assert (Hin' : forallb (in_mem msl) (a0 :: t) = true) by (rewrite (forallb_in_mem_len _ (mem st) _ Hl); exact Hin).
            destruct (load_issue_ok l1d sc m msl a0 t HV Hin' Hsl) as (c1 & sc1 & Eg & HV1 & Hr1 & Hu).
            rewrite Hdt in Eg, Hr1, Hu. exists c1, sc1. intros _. split; [exact Eg|]. split; [exact HV1|]. split; [exact Hr1|].
            split; [exact Hu|]. split; [|auto]. intros Ehit x Hx.
            destruct (get_all_ok sc (a0 :: t) l1d sc [] (v_D _ _ _ _ HV) ltac:(auto)) as (? & ? & _ & _ & _ & _ & Hhh).
            rewrite Hdt, Ehit in Hhh. rewrite forallb_forall in Hhh. specialize (Hhh x Hx). destruct (view sc x); [discriminate | discriminate]. }
        destruct Hga as (d1 & sc1 & Hga).
        pose proof (eu_cycle_m_idle labels rg m (x_pw a) l1d ce (mk_sbus None wc) bu ebus1 (x_dt a) (ev_la hev) d1 (map (mget msl) (ev_la hev))
                      e1 ebus2 dt1 act Epr Hmc eq_refl Hmr (fun H0 => proj1 (Hga H0)) Ee) as Heu.
        destruct act as [|i pc|]; [| |congruence].
        * (* nothing executed *)
          destruct Heu as (bu' & ce1 & l1d' & Eeu & Her & Hcase). rewrite Eeu.
          rewrite (sks_pre_none app a hev rest _ _ _ _ _ _ _ _ Ef Ed Ee0). unfold sks_next.
          destruct (sks_wu (x_pw a) (x_wu a) (x_wp a) (x_wc a)) as [[[pw2 w2] swp2] swc2] eqn:Ew.
          rewrite Hwp0 in Ew.
          destruct Hcase as [(-> & -> & Hp1 & Hm1) | (Hlane & -> & -> & Hp1 & Hm1)].
          -- destruct (tail_step f cyc (ev_la hev) st rg m (x_pw a) l1d sc ce1 None wc bu' fu1 l1i1 dbus2 ebus2 (x_wu a)
                                 None (x_wc a) pw2 w2 swp2 swc2 e1 (x_l1 a) (x_l2 a) HW Hsi Hm8 Her) as (s' & Et & Hc & HR').
             ++ intros b Hb. rewrite Hm1, Hmc in Hb. discriminate.
             ++ intros Hp. rewrite Hp1 in Hp. discriminate.
             ++ intros Hp. rewrite Hp1 in Hp. discriminate.
             ++ exact Ew.
             ++ rewrite Hdt in Hc, HR'. exists s', st. split; [exact Et|]. split; [exact Hc|]. split; [exact HR' | exact HS].
          -- destruct (Hga Hlane) as (_ & HV1 & Hr1 & Hu1 & Hhit & Hsl & Hin).
             assert (HW1 : WR d1 sc1 st rg m None wc None (x_wc a)).
             { constructor.
               - exists msl. auto.
               - exact Hregs.
               - exact Hri.
               - exact Hi2.
               - exact Hlen.
               - reflexivity.
               - exact Hsc.
               - intros x Hx. discriminate.
               - intros x Hx.
                 apply (item_good_sc l1d sc d1 sc1 _ x (v_D _ _ _ _ HV) (v_D _ _ _ _ HV1)); [|apply Hgc; exact Hx].
                 intros a1 _ _ Hv1. apply (view_none_sub l1d sc d1 sc1 a1 (v_D _ _ _ _ HV) (v_D _ _ _ _ HV1) Hv1).
                 intros b Hb. left. rewrite Hr1, <- Hdt in Hb. apply a_get_all_in in Hb. exact Hb. }
             destruct (tail_step f cyc (ev_la hev) st rg m (x_pw a) d1 sc1 ce1 None wc bu' fu1 l1i1 dbus2 ebus2 (x_wu a)
                                 None (x_wc a) pw2 w2 swp2 swc2 e1 (x_l1 a) (x_l2 a) HW1 Hsi Hm8 Her) as (s' & Et & Hc & HR').
             ++ intros b Hb. rewrite Hm1 in Hb. destruct (snd (a_get_all (x_dt a) (ev_la hev))) eqn:Ehit; [|rewrite Hmc in Hb; discriminate].
                injection Hb as <-. apply map_mget_ext. intros x Hx. rewrite Hmem.
                assert (Hx0 : 0 <= x) by (rewrite forallb_forall in Hin; specialize (Hin x Hx); apply in_mem_range in Hin; lia).
                destruct wc as [xw|]; [|reflexivity]. symmetry.
                apply (mget_papply sc (mem st) xw msl x (Hgc _ eq_refl) Hl Hx0).
                intros Hm Hin0. destruct (Hgc xw eq_refl) as (_ & _ & H3). destruct (H3 Hm) as (_ & _ & _ & _ & Hvn).
                apply (Hhit eq_refl x Hx). apply Hvn. exact Hin0.
             ++ intros _ Hn. rewrite Hm1 in Hn. destruct (snd (a_get_all (x_dt a) (ev_la hev))); [discriminate|]. apply Hu1. reflexivity.
             ++ intros _. split; [reflexivity|]. intros i pc Hrun r Hinr.
                assert (Hp1' : eu_pending_read e1 = true) by (rewrite <- Her; exact Hp1).
                destruct (skm_eu_issue ce ebus1 (x_pw a) (x_dt a) (ev_la hev) e1 ebus2 _ Epr Ee Hp1') as (i' & pc' & Hr' & _ & Hhz).
                rewrite <- Her in Hr'. cbn [eu_erase eu_runner] in Hr'. rewrite Hrun in Hr'. injection Hr' as <- <-.
                apply (reads_agree_s (x_pw a) rg wc st i Hlen Hpw Hrelc Hregs Hhz r Hinr).
             ++ exact Ew.
             ++ rewrite Hr1 in Hc, HR'. exists s', st. split; [exact Et|]. split; [exact Hc|]. split; [exact HR' | exact HS].
        * (* (i, pc) is executed directly: it does not load *)
          destruct Heu as (Hla0 & -> & e2 & -> & Hhz & Hhd & Eeu). rewrite Eeu.
          rewrite <- Hcee in Hhd. destruct (head_entry_s app Happ hev a _ _ _ _ _ i pc HF Ef Ed Hhd) as [-> Hi].
          rewrite (sks_pre_exec_eq app a hev rest _ _ _ _ _ _ _ _ _ _ Ef Ed Ee0).
          destruct Hex as (_ & Hpe & _). rewrite <- Hdt.
          destruct Hok1 as (_ & _ & Hm2). specialize (Hm2 Hpe).
          apply (sim_exec_s f a hev rest st stf fu1 l1i1 dbus2 ebus2 cyc rg m l1d sc e2 wc (bu_assert bu i (ev_pc hev)) i []
                   HW Hwp0 Hsi Hm8); auto.
          -- apply (reads_agree_s (x_pw a) rg wc st i Hlen Hpw Hrelc Hregs Hhz).
          -- rewrite Hla0. reflexivity.
          -- intros _. exists bu. reflexivity.
  Qed.

  Lemma sim_step_s f a hev rest cyc s st stf :
    RMs (ev_la hev) s a st -> FInvS app hev a -> evs_wf app (hev :: rest) -> ns_inv a (hev :: rest) ->
    sexecm app labels st (hev :: rest) stf ->
    match sks_cycle app a (hev :: rest) with
    | XStuck => True
    | XFin dc dt => m4run (S f) app labels s cyc = MDone (cyc + dc + MemoryAccess * zlen dt) stf
    | XStep a' path' dc =>
        exists s' st', m4run (S f) app labels s cyc = m4run f app labels s' (cyc + dc) /\
                       RMs (nla path') s' a' st' /\ sexecm app labels st' path' stf
    end.
  Proof.
    intros HR HF Hwf Hns HS. pose proof (sim_pre_s f a hev rest cyc s st stf HR HF Hns HS) as Hpre.
    unfold sks_cycle. destruct (sks_pre app a (hev :: rest)) as [a2 p dc|dc dt|] eqn:Ep; [|exact Hpre|exact I].
    destruct Hpre as (s' & st' & E & Hc & HR' & HS').
    destruct (finvs_step app Happ hev rest a a2 p dc HF Hwf Hns Ep) as (hev' & rest' & -> & HF' & _).
    rewrite E, Hc. destruct (sks_complete a2) eqn:Ec.
    - apply (finish_s _ _ _ _ hev' rest' _ _ HR' HF' Ec HS').
    - eexists _, st'. split; [reflexivity|]. split; assumption.
  Qed.

  Lemma sim_run_s : forall fuel a hev rest cyc s st stf c,
    RMs (ev_la hev) s a st -> FInvS app hev a -> evs_wf app (hev :: rest) -> ns_inv a (hev :: rest) ->
    sexecm app labels st (hev :: rest) stf ->
    sks_run fuel app a (hev :: rest) cyc = Some c ->
    m4run fuel app labels s cyc = MDone c stf.
  Proof.
    induction fuel as [|f IH]; intros a hev rest cyc s st stf c HR HF Hwf Hns HS H; [discriminate|].
    cbn [sks_run] in H.
    pose proof (sim_step_s f a hev rest cyc s st stf HR HF Hwf Hns HS) as Hsim.
    destruct (sks_cycle app a (hev :: rest)) as [a' path' dc|dc dt|] eqn:Ec; [| |discriminate].
    - destruct Hsim as (s' & st1 & -> & HR' & HS').
      assert (Epre : sks_pre app a (hev :: rest) = XStep a' path' dc).
      { unfold sks_cycle in Ec. destruct (sks_pre app a (hev :: rest)) as [a2 p d|d t|]; try discriminate.
        destruct (sks_complete a2); [discriminate | exact Ec]. }
      destruct (finvs_step app Happ hev rest a a' path' dc HF Hwf Hns Epre) as (hev' & rest' & -> & HF' & Hwf' & Hns' & _).
      eapply IH; eassumption.
    - injection H as <-. exact Hsim.
  Qed.
End SimS.
