(* MVP-8.0 (Mvp80.v) on a program without loads and stores: the memory system is never used.

   regonly app: no instruction of the program text is a load or a store.
   Invariant of a run (INV / EU / WU below): the directory, the cache controllers, the shared L3 and
   ctx.Memory are the ones init8 built (msi_new, idle controllers with empty L1Ds, an empty L3, the initial
   memory); every runner on the control bus, in the pendings of the control unit, on the execute bus or
   held by an execute unit carries an instruction that is neither a load nor a store; no execute unit is
   in the closure around cc.read / cc.write; no write unit holds a pending memory write.
   Hence mvp80_regonly_memory_unchanged: a run that returns returns the initial memory. *)
From Coq Require Import ZArith List Bool Lia.
From Maj Require Import Base.Outcome Base.GoInt Base.GoTypes Isa.Spec Isa.Seq.
From Maj Require Import Gen.Latency Gen.RiscTables Gen.Opcodes Comp.Cache Comp.Rat Mvp.Mvp12 Mvp.Mvp3 Mvp.Mvp5 Mvp.Mvp60 Mvp.Mvp63 Mvp.Mvp80.
From Maj Require Import Mvp.Mvp60Proofs Mvp.Mvp63Proofs Mvp.Mvp80Proofs Mvp.Mvp80OrdIds.
From Maj Require Mvp.Mvp4Skel Mvp.Mvp4Inv Mvp.Mvp62RefRel.
Import ListNotations.
Open Scope Z_scope.

(* ------------------------------------------------------------------ *)
(* 1. the class of programs, facts about the ISA tables                 *)
(* ------------------------------------------------------------------ *)

Definition nomem (i : instr) : bool :=
  negb (InstructionType_IsMemoryRead (instr_InstructionType i)) &&
  negb (InstructionType_IsMemoryWrite (instr_InstructionType i)).

Definition regonly (app : list instr) : bool :=
  forallb (fun i => negb (InstructionType_IsMemoryRead (instr_InstructionType i)) &&
                    negb (InstructionType_IsMemoryWrite (instr_InstructionType i))) app.

Lemma regonly_reg_only : forall app, regonly app = Mvp4Skel.reg_only app.
Proof. reflexivity. Qed.

Lemma regonly_nth : forall app n i, regonly app = true -> nth_error app n = Some i -> nomem i = true.
Proof.
  intros app n i H HN. unfold regonly in H. rewrite forallb_forall in H.
  apply H. eapply nth_error_In; eassumption.
Qed.

(* a non-load reads no memory *)
Lemma nomem_no_read : forall i rr seq, nomem i = true -> instr_MemoryRead i rr seq = [].
Proof. intros i rr seq H. apply Mvp4Inv.nomem_no_read. exact H. Qed.

(* a non-store never produces a memory change *)
Lemma nomem_no_change : forall i rr labels pc memory seq exe,
  nomem i = true -> instr_Run i rr labels pc memory seq = Ok exe -> MemoryChange exe = false.
Proof. intros i rr labels pc memory seq exe H E. eapply Mvp62RefRel.nomem_nochange; [exact H | exact E]. Qed.

(* ------------------------------------------------------------------ *)
(* 2. runners and buses                                                 *)
(* ------------------------------------------------------------------ *)

Definition NM (r : runner3) : Prop := nomem (q_instr r) = true.
Definition NMr (r : runner) : Prop := nomem (r_instr r) = true.

Definition bus_ok {T} (P : T -> Prop) (b : bbus T) : Prop :=
  Forall (fun p => P (snd p)) (bb_buf b) /\ Forall P (bb_q b).

Lemma bus_ok_new : forall {T} (P : T -> Prop) a b, bus_ok P (bb_new a b).
Proof. intros. split; constructor. Qed.

Lemma bus_ok_clean : forall {T} (P : T -> Prop) b, bus_ok P (bb_clean b).
Proof. intros. split; constructor. Qed.

Lemma bus_ok_add : forall {T} (P : T -> Prop) b t cycle, bus_ok P b -> P t -> bus_ok P (bb_add b t cycle).
Proof.
  intros T P b t cycle [H1 H2] HP. split; cbn [bb_add bb_buf bb_q]; [|exact H2].
  apply Forall_app. split; [exact H1|]. constructor; [exact HP|constructor].
Qed.

Lemma bus_ok_setq : forall {T} (P : T -> Prop) b q,
  bus_ok P b -> Forall P q -> bus_ok P (mk_bb (bb_buf b) q (bb_ql b) (bb_bl b)).
Proof. intros T P b q [H1 _] HQ. split; assumption. Qed.

Lemma connect_loop_ok : forall {T} (P : T -> Prop) ql c buf q q' buf',
  bb_connect_loop ql c q buf = (q', buf') ->
  Forall (fun p => P (snd p)) buf -> Forall P q -> Forall (fun p => P (snd p)) buf' /\ Forall P q'.
Proof.
  intros T P ql c. induction buf as [|[a t] buf IH]; intros q q' buf' H HB HQ; cbn [bb_connect_loop] in H.
  - inversion H; subst. split; [constructor|exact HQ].
  - destruct (zlen q =? ql); [inversion H; subst; split; assumption|].
    destruct (a >? c); [inversion H; subst; split; assumption|].
    inversion HB as [|? ? HP HB']; subst. eapply IH; [exact H|exact HB'|].
    apply Forall_app. split; [exact HQ|]. constructor; [exact HP|constructor].
Qed.

Lemma bus_ok_connect : forall {T} (P : T -> Prop) b c, bus_ok P b -> bus_ok P (bb_connect b c).
Proof.
  intros T P b c [H1 H2]. unfold bb_connect.
  destruct (zlen (bb_q b) =? bb_ql b); [split; assumption|].
  destruct (bb_connect_loop (bb_ql b) c (bb_q b) (bb_buf b)) as [q buf] eqn:E.
  destruct (connect_loop_ok P _ _ _ _ _ _ E H1 H2) as [A B]. split; assumption.
Qed.

Lemma pick8_ok : forall (P : runner3 -> Prop) pref id q r q',
  pick8 pref id q = Some (r, q') -> Forall P q -> P r /\ Forall P q'.
Proof.
  intros P pref id. induction q as [|a t IH]; intros r q' H HQ; cbn [pick8] in H; [discriminate|].
  inversion HQ as [|? ? HA HT]; subst.
  match type of H with (if ?c then _ else _) = _ => destruct c end.
  - inversion H; subst. split; assumption.
  - destruct (pick8 pref id t) as [[r1 t1]|] eqn:E; [|discriminate].
    inversion H; subst. destruct (IH _ _ eq_refl HT) as [A B]. split; [exact A|constructor; assumption].
Qed.

(* ------------------------------------------------------------------ *)
(* 3. the pipeline of MVP-6.3: what the invariant depends on            *)
(* ------------------------------------------------------------------ *)

Definition core_of (x : mx) : list Z * cache * bbus runner * bbus runner3 * list runner3 :=
  (m_mem (x_m x), m_l3 (x_m x), m_cbus (x_m x), x_ebus x, x_pend x).

Ltac split5 := split; [|split; [|split; [|split]]].

Section Inv.
  Variables (mem0 : list Z) (c3 : cache).

  Definition PX (x : mx) : Prop :=
    m_mem (x_m x) = mem0 /\ m_l3 (x_m x) = c3 /\ bus_ok NMr (m_cbus (x_m x)) /\ bus_ok NM (x_ebus x) /\
    Forall NM (x_pend x).

  Lemma PX_ext : forall x x', core_of x' = core_of x -> PX x -> PX x'.
  Proof.
    intros x x' E H. unfold core_of in E. inversion E as [[E1 E2 E3 E4 E5]].
    unfold PX. rewrite E1, E2, E3, E4, E5. exact H.
  Qed.

  (* --- frame lemmas: functions that touch nothing of the core --- *)

  Lemma core_set_forward3 : forall x pc reg v, core_of (set_forward3 x pc reg v) = core_of x.
  Proof. reflexivity. Qed.

  Lemma core_fu_reset3 : forall x pc, core_of (fu_reset3 x pc) = core_of x.
  Proof. reflexivity. Qed.

  Lemma core_bu_assert3 : forall x r, core_of (bu_assert3 x r) = core_of x.
  Proof.
    intros x r. unfold bu_assert3. cbv zeta.
    destruct (InstructionType_IsUnconditionalBranch _).
    - destruct (btb_get _ _); reflexivity.
    - destruct (InstructionType_IsConditionalBranch _); reflexivity.
  Qed.

  Lemma core_bu_resolved3 : forall x pc pcTo, core_of (bu_resolved3 x pc pcTo) = core_of x.
  Proof. reflexivity. Qed.

  Lemma core_rat_commit3 : forall ord cycle x, core_of (rat_commit3 ord cycle x) = core_of x.
  Proof. reflexivity. Qed.

  Lemma core_rat_rollback3 : forall ord cycle x s, core_of (rat_rollback3 ord cycle x s) = core_of x.
  Proof. reflexivity. Qed.

  Lemma core_wbus_connect3 : forall x cycle, core_of (wbus_connect3 x cycle) = core_of x.
  Proof. reflexivity. Qed.

  Lemma core_or_os : forall x b, core_of (or_os x b) = core_of x.
  Proof. reflexivity. Qed.

  (* --- du.go --- *)

  Variable app : list instr.
  Hypothesis Happ : regonly app = true.

  Lemma du_loop3_px : forall q cycle ret pbr cbus x ret' pbr' q' cbus' x',
    du_loop3 q app cycle ret pbr cbus x = Ok (ret', pbr', q', cbus', x') ->
    bus_ok NMr cbus -> bus_ok NMr cbus' /\ core_of x' = core_of x.
  Proof.
    induction q as [|pc q IH]; intros cycle ret pbr cbus x ret' pbr' q' cbus' x' H HB; cbn [du_loop3] in H.
    - inversion H; subst. split; [exact HB|reflexivity].
    - destruct (nlen6 app <=? Z.quot pc 4); [inversion H; subst; split; [exact HB|reflexivity]|].
      destruct (Z.quot pc 4 <? 0); [discriminate|].
      destruct (nth_error app (Z.to_nat (Z.quot pc 4))) as [i|] eqn:EN; [|discriminate].
      cbv zeta in H.
      assert (HA : bus_ok NMr (bb_add cbus (mk_runner i pc (sequence_id (set_forward3 x pc 0 0) pc)) cycle)).
      { apply bus_ok_add; [exact HB|]. unfold NMr. cbn [r_instr]. eapply regonly_nth; eassumption. }
      destruct (InstructionType_IsUnconditionalBranch (instr_InstructionType i));
        [inversion H; subst; split; [exact HA|reflexivity]|].
      destruct (instr_InstructionType i =? Ret); [inversion H; subst; split; [exact HA|reflexivity]|].
      apply IH in H; [|exact HA]. destruct H as [A B]. split; [exact A|]. rewrite B. reflexivity.
  Qed.

  Lemma du_cycle3_px : forall cycle x x', du_cycle3 app cycle x = Ok x' -> PX x -> PX x'.
  Proof.
    intros cycle x x' H HP. unfold du_cycle3 in H. cbv zeta in H.
    destruct (m_dret (x_m x)); [inversion H; subst; exact HP|].
    destruct (m_dpbr (x_m x)); [inversion H; subst; exact HP|].
    apply bind_ok in H as ([[[[ret pbr] q'] cbus'] x1] & E & H). inversion H; subst.
    destruct HP as (P1 & P2 & P3 & P4 & P5).
    apply du_loop3_px in E; [|exact P3]. destruct E as [A B].
    unfold core_of in B. inversion B as [[B1 B2 B3 B4 B5]].
    unfold PX. cbn [x_m set_m set_cbus set_dbus set_du m_mem m_l3 m_cbus x_ebus x_pend].
    rewrite B4, B5. split5; assumption.
  Qed.

  (* --- cu.go --- *)

  Lemma mark_fwder_nm : forall id ch r, NM r -> NM (mark_fwder id ch r).
  Proof. intros id ch r H. unfold mark_fwder. destruct (q_id r =? id); exact H. Qed.

  Lemma ebus_mark_ok : forall b id ch, bus_ok NM b -> bus_ok NM (ebus_mark b id ch).
  Proof.
    intros b id ch [H1 H2]. split; cbn [ebus_mark bb_buf bb_q].
    - apply Forall_map. cbn [snd]. eapply Forall_impl; [|exact H1]. intros a HA. apply mark_fwder_nm. exact HA.
    - apply Forall_map. eapply Forall_impl; [|exact H2]. intros a HA. apply mark_fwder_nm. exact HA.
  Qed.

  Lemma push_runner3_px : forall x cycle r x' r',
    push_runner3 x cycle r = Some (x', r') -> PX x -> NM r -> PX x' /\ NM r'.
  Proof.
    intros x cycle r x' r' H (P1 & P2 & P3 & P4 & P5) HR. unfold push_runner3 in H.
    destruct (negb _); [discriminate|]. cbv zeta in H. inversion H; subst.
    split; [|exact HR].
    unfold PX. cbn [set_next3 set_m set_ebus3 x_m x_ebus x_pend add_pending6 set_sb m_mem m_l3 m_cbus].
    split5; try assumption. apply bus_ok_add; [exact P4|exact HR].
  Qed.

  Lemma push_or_stop3_px : forall x cycle r stop push st r1 x1,
    push_or_stop3 x cycle r stop = (push, st, r1, x1) -> PX x -> NM r -> PX x1 /\ NM r1.
  Proof.
    intros x cycle r stop push st r1 x1 H HP HR. unfold push_or_stop3 in H.
    destruct (push_runner3 x cycle r) as [[x' r']|] eqn:E.
    - inversion H; subst. eapply push_runner3_px; eassumption.
    - inversion H; subst. split; assumption.
  Qed.

  Ltac dif H := match type of H with (if ?c then _ else _) = _ => destruct c end.

  Lemma handle_runner3_px : forall ord cycle x skipped pb r push stop r1 x1,
    handle_runner3 ord cycle x skipped pb r = (push, stop, r1, x1) -> PX x -> NM r -> PX x1 /\ NM r1.
  Proof.
    intros ord cycle x skipped pb r push stop r1 x1 H HP HR. unfold handle_runner3 in H. cbv zeta in H.
    dif H; [inversion H; subst; split; assumption|].
    dif H; [inversion H; subst; split; assumption|].
    dif H; [inversion H; subst; split; assumption|].
    dif H; [eapply push_or_stop3_px; eassumption|].
    destruct (should_forward3 _ _ _ _ _) as [[p reg]|].
    - eapply push_or_stop3_px; [exact H| |exact HR].
      destruct HP as (P1 & P2 & P3 & P4 & P5). unfold PX.
      cbn [set_os3 set_next3 set_ebus3 x_m x_ebus x_pend].
      split5; try assumption. apply ebus_mark_ok. exact P4.
    - dif H; [eapply push_or_stop3_px; eassumption|].
      inversion H; subst; split; assumption.
  Qed.

  Lemma after_push3_core : forall x l r, core_of (fst (after_push3 x l r)) = core_of x.
  Proof.
    intros x l r. unfold after_push3. cbv zeta. cbn [fst].
    destruct (InstructionType_IsConditionalBranch _); reflexivity.
  Qed.

  Lemma cu_pending3_px : forall ord cycle ps kept l x st pend' l' x',
    cu_pending3 ord cycle ps kept l x = (st, pend', l', x') ->
    PX x -> Forall NM ps -> Forall NM kept -> PX x' /\ Forall NM pend'.
  Proof.
    intros ord cycle. induction ps as [|r t IH]; intros kept l x st pend' l' x' H HP HPS HK; cbn [cu_pending3] in H.
    - inversion H; subst. split; [exact HP|]. apply Forall_rev. exact HK.
    - inversion HPS as [|? ? HR HT]; subst.
      destruct (handle_runner3 ord cycle x (l_skipped l) (l_pbranch l) r) as [[[push stop] r1] x1] eqn:E.
      apply handle_runner3_px in E; [|exact HP|exact HR]. destruct E as [HP1 HR1].
      destruct push.
      + pose proof (PX_ext _ _ (after_push3_core x1 l r1) HP1) as HP2.
        destruct (after_push3 x1 l r1) as [x2 l2] eqn:EA. cbn [fst] in HP2. cbv beta iota zeta in H.
        destruct stop.
        * inversion H; subst. split; [exact HP2|]. apply Forall_app. split; [apply Forall_rev; exact HK|exact HT].
        * eapply IH; [exact H|exact HP2|exact HT|exact HK].
      + cbv beta iota zeta in H. destruct stop.
        * inversion H; subst. split; [exact HP1|]. apply Forall_app.
          split; [apply Forall_app; split; [apply Forall_rev; exact HK|constructor; [exact HR|constructor]]|exact HT].
        * eapply IH; [exact H|exact HP1|exact HT|constructor; assumption].
  Qed.

  Lemma cu_incoming3_px : forall ord cycle q pend l x q' pend' l' x',
    cu_incoming3 ord cycle q pend l x = (q', pend', l', x') ->
    PX x -> Forall NMr q -> Forall NM pend -> PX x' /\ Forall NMr q' /\ Forall NM pend'.
  Proof.
    intros ord cycle. induction q as [|r0 t IH]; intros pend l x q' pend' l' x' H HP HQ HPD; cbn [cu_incoming3] in H.
    - destruct (pendingLength <=? zlen pend); inversion H; subst; auto.
    - destruct (pendingLength <=? zlen pend); [inversion H; subst; auto|].
      inversion HQ as [|? ? HR HT]; subst.
      destruct (handle_runner3 ord cycle x (l_skipped l) (l_pbranch l) (r3_of r0)) as [[[push stop] r1] x1] eqn:E.
      apply handle_runner3_px in E; [|exact HP|exact HR]. destruct E as [HP1 HR1].
      destruct push.
      + pose proof (PX_ext _ _ (after_push3_core x1 l r1) HP1) as HP2.
        destruct (after_push3 x1 l r1) as [x2 l2] eqn:EA. cbn [fst] in HP2. cbv beta iota zeta in H.
        destruct stop.
        * inversion H; subst. auto.
        * eapply IH; [exact H|exact HP2|exact HT|exact HPD].
      + cbv beta iota zeta in H.
        assert (HPD' : Forall NM (pend ++ [r1])).
        { apply Forall_app. split; [exact HPD|constructor; [exact HR1|constructor]]. }
        destruct stop.
        * inversion H; subst. auto.
        * eapply IH; [exact H|exact HP1|exact HT|exact HPD'].
  Qed.

  Lemma cu_cycle3_px : forall ord cycle x, PX x -> PX (cu_cycle3 ord cycle x).
  Proof.
    intros ord cycle x HP. unfold cu_cycle3.
    destruct (negb _); [eapply PX_ext; [|exact HP]; reflexivity|].
    destruct (cu_pending3 ord cycle (x_pend x) [] (mk_cul [] [] false) x) as [[[stopped pend1] l1] x1] eqn:E1.
    apply cu_pending3_px in E1; [|exact HP|destruct HP as (_ & _ & _ & _ & P5); exact P5|constructor].
    destruct E1 as [(P1 & P2 & P3 & P4 & P5) HPD1].
    destruct stopped.
    - unfold PX. cbn [set_prev3 set_pend3 x_m x_ebus x_pend]. split5; assumption.
    - destruct (cu_incoming3 ord cycle (bb_q (m_cbus (x_m x1))) pend1 l1 x1) as [[[q' pend2] l2] x2] eqn:E2.
      apply cu_incoming3_px in E2; [|split5; assumption|destruct P3 as [_ P3]; exact P3|exact HPD1].
      destruct E2 as [(Q1 & Q2 & Q3 & Q4 & Q5) [HQ' HPD2]].
      unfold PX. cbn [set_prev3 set_pend3 set_m set_cbus x_m x_ebus x_pend m_mem m_l3 m_cbus].
      split5; try assumption. apply bus_ok_setq; assumption.
  Qed.

  (* --- wu.go: a write unit that holds no pending memory write --- *)

  Lemma wu_cycle8_px : forall x w before x' w',
    wu_cycle8 x w before = Ok (x', w') -> u_co w = WNone -> core_of x' = core_of x /\ u_co w' = WNone.
  Proof.
    intros x w before x' w' H HW. unfold wu_cycle8 in H.
    destruct (bb_q (m_wbus (x_m x))) as [|c t] eqn:EQ.
    - unfold wu_cycle3 in H. rewrite HW in H. cbv zeta in H. unfold bb_get in H. rewrite EQ in H.
      cbv beta iota zeta in H. inversion H; subst. split; [reflexivity|exact HW].
    - match type of H with (if ?c then _ else _) = _ => destruct c eqn:EC end; [discriminate|].
      unfold wu_cycle3 in H. rewrite HW in H. cbv zeta in H. unfold bb_get in H. rewrite EQ in H.
      cbv beta iota zeta in H.
      destruct (negb (before =? -1) && (before <? w_seq c)) eqn:E1;
        [inversion H; subst; split; [reflexivity|exact HW]|].
      destruct (RegisterChange (w_exe c)) eqn:E2; [inversion H; subst; split; [reflexivity|exact HW]|].
      destruct (MemoryChange (w_exe c)) eqn:E3; [cbn in EC; discriminate|].
      inversion H; subst; split; [reflexivity|exact HW].
  Qed.

  Definition WU (w : wu6) : Prop := u_co w = WNone.

  Lemma wus_cycle8_px : forall wus x before x' wus',
    wus_cycle8 x wus before = Ok (x', wus') -> Forall WU wus -> core_of x' = core_of x /\ Forall WU wus'.
  Proof.
    induction wus as [|w t IH]; intros x before x' wus' H HW; cbn [wus_cycle8] in H.
    - inversion H; subst. split; [reflexivity|constructor].
    - inversion HW as [|? ? HW1 HWT]; subst.
      apply bind_ok in H as ([x1 w1] & E1 & H). apply bind_ok in H as ([x2 t2] & E2 & H).
      cbn [fst snd] in *. inversion H; subst.
      apply wu_cycle8_px in E1; [|exact HW1]. destruct E1 as [A B].
      apply IH in E2; [|exact HWT]. destruct E2 as [C D].
      split; [congruence|constructor; assumption].
  Qed.

  (* --- cpu.go: flush --- *)

  Lemma do_flush3_px : forall x pc, PX x -> PX (do_flush3 x pc).
  Proof.
    intros x pc (P1 & P2 & P3 & P4 & P5). unfold PX.
    cbn [do_flush3 do_flush6 inc_seq3 set_seq3 set_m set_pcb3 set_prev3 set_pend3 set_ebus3 x_m x_ebus x_pend m_mem m_l3 m_cbus].
    split5; try assumption; try apply bus_ok_clean. constructor.
  Qed.
End Inv.

(* ------------------------------------------------------------------ *)
(* 4. the machine of MVP-8.0: an idle memory system stays idle          *)
(* ------------------------------------------------------------------ *)

(* a controller in the state NewCPU leaves it in, with an L1D that holds no line *)
Definition cc_idle (c : cc8) : Prop :=
  c_read c = RdStart /\ c_write c = WrStart /\ c_snoop c = [] /\ c_rsems c = [] /\ c_wsems c = [] /\
  existing_lines (c_l1d c) = Ok [].

Lemma set_nth6_same : forall {A} (l : list A) i c, nth_error l i = Some c -> set_nth6 l i c = l.
Proof.
  intros A. induction l as [|h t IH]; intros i c H; [reflexivity|].
  destruct i as [|i]; cbn [set_nth6 nth_error] in *.
  - inversion H; subst. reflexivity.
  - f_equal. apply IH. exact H.
Qed.

Lemma flat_map_nil_fun : forall {A B} (f : A -> list B) l, (forall a, f a = []) -> flat_map f l = [].
Proof. intros A B f l H. induction l as [|a t IH]; cbn [flat_map]; [reflexivity|]. rewrite H, IH. reflexivity. Qed.

(* cc.flush of an idle controller without semaphores is the identity *)
Lemma cc_flush_idle : forall k c, cc_idle c -> cc_flush k c = Ok (k, c).
Proof.
  intros k [id l1 rd wr sn rs ws po] (A & B & C & D & E & F). cbn [c_read c_write c_snoop c_rsems c_wsems] in A, B, C, D, E.
  subst. reflexivity.
Qed.

(* coSnoop with no command addressed to anybody creates no closure *)
Lemma cc_snoop_idle : forall ord cycle w c,
  k_cmds (w_msi w) = [] -> cc_idle c -> cc_snoop_cycle ord cycle w c = (false, Ok (w, c)).
Proof.
  intros ord cycle w c HK (A & B & C & D & E & F). unfold cc_snoop_cycle. rewrite C, HK.
  cbn [filter map snoop_order_matters].
  rewrite flat_map_nil_fun by (intros; reflexivity). reflexivity.
Qed.

Lemma snoops_cycle_idle : forall ord cycle ccs w,
  k_cmds (w_msi w) = [] -> Forall cc_idle ccs -> snoops_cycle ord cycle w ccs = (false, Ok (w, ccs)).
Proof.
  intros ord cycle. induction ccs as [|c t IH]; intros w HK HC; cbn [snoops_cycle]; [reflexivity|].
  inversion HC as [|? ? H1 H2]; subst.
  rewrite (cc_snoop_idle ord cycle w c HK H1). rewrite (IH w HK H2). reflexivity.
Qed.

(* cc.writeBack of a controller whose L1D is empty writes nothing and costs nothing *)
Lemma cc_writeback_idle : forall w c, cc_idle c -> cc_writeback w c = Ok (w, 0).
Proof.
  intros w c (A & B & C & D & E & F). unfold cc_writeback. rewrite F. reflexivity.
Qed.

Lemma ccs_writeback_idle : forall ccs w n, Forall cc_idle ccs -> ccs_writeback w ccs n = Ok (w, n).
Proof.
  induction ccs as [|c t IH]; intros w n HC; cbn [ccs_writeback]; [reflexivity|].
  inversion HC as [|? ? H1 H2]; subst. rewrite (cc_writeback_idle w c H1). cbn [bind fst snd].
  rewrite Z.add_0_r. apply IH. exact H2.
Qed.

Section Mach.
  Variables (mem0 : list Z) (c3 : cache) (k0 : msi8) (ccs0 : list cc8) (app : list instr).
  Hypothesis Happ : regonly app = true.
  Hypothesis Hstale : k_stale k0 = false.
  Hypothesis Hcmds : k_cmds k0 = [].
  Hypothesis Hccs : Forall cc_idle ccs0.
  Hypothesis Hl3 : lines c3 = [].

  Notation PX := (PX mem0 c3).

  Definition INV (y : my) : Prop := y_msi y = k0 /\ y_ccs y = ccs0 /\ PX (y_x y).
  Definition RNM (e : eu8) : Prop := forall r, h_runner e = Some r -> NM r.
  Definition EU (e : eu8) : Prop := (h_co e = HNone \/ h_co e = HPrepare) /\ RNM e.

  Lemma INV_set_x_px : forall y x', INV y -> PX x' -> INV (set_x y x').
  Proof. intros y x' (I1 & I2 & I3) HP. split; [exact I1|]. split; [exact I2|exact HP]. Qed.

  Lemma INV_set_x : forall y x', INV y -> core_of x' = core_of (y_x y) -> INV (set_x y x').
  Proof. intros y x' HI E. apply INV_set_x_px; [exact HI|]. eapply PX_ext; [exact E|]. destruct HI as (_ & _ & I3). exact I3. Qed.

  Lemma EU_set_hseq : forall e s, EU e -> EU (set_hseq e s).
  Proof. intros e s H. exact H. Qed.

  (* --- snoops, control unit --- *)

  Lemma snoops8_inv : forall ord cycle y y', snoops8 ord cycle y = Ok y' -> INV y -> INV y'.
  Proof.
    intros ord cycle y y' H (I1 & I2 & I3). unfold snoops8 in H.
    rewrite (snoops_cycle_idle ord cycle (y_ccs y) (mw_of y)) in H;
      [|cbn [mw_of w_msi]; rewrite I1; exact Hcmds|rewrite I2; exact Hccs].
    cbn [bind fst snd] in H. inversion H; subst.
    split; [exact I1|]. split; [exact I2|].
    eapply PX_ext; [|exact I3]. reflexivity.
  Qed.

  (* snoops8 on an idle memory system changes nothing but (possibly) the ghost flag - here not even that *)
  Lemma snoops8_idle : forall ord cycle y, INV y ->
    snoops8 ord cycle y = Ok (or_os8 (set_ccs (put_mw y (mw_of y)) (y_ccs y)) false).
  Proof.
    intros ord cycle y (I1 & I2 & I3). unfold snoops8.
    rewrite (snoops_cycle_idle ord cycle (y_ccs y) (mw_of y));
      [|cbn [mw_of w_msi]; rewrite I1; exact Hcmds|rewrite I2; exact Hccs].
    reflexivity.
  Qed.

  Lemma cu_cycle8_inv : forall ord cycle y, INV y -> INV (cu_cycle8 ord cycle y).
  Proof.
    intros ord cycle y (I1 & I2 & I3). unfold cu_cycle8. rewrite I1, Hstale. cbv zeta.
    split; [reflexivity|]. split; [exact I2|]. cbn [y_x]. apply (cu_cycle3_px mem0 c3). exact I3.
  Qed.

  Lemma front8_inv : forall ord cycle y y', front8 app ord cycle y = Ok y' -> INV y -> INV y'.
  Proof.
    intros ord cycle y y' H HI. unfold front8 in H. cbv zeta in H.
    apply bind_ok in H as ([[fu1 l1i1] dbus1] & _ & H).
    apply bind_ok in H as (x & ED & H). inversion H; subst.
    apply cu_cycle8_inv. apply INV_set_x_px; [exact HI|].
    eapply (du_cycle3_px mem0 c3 app Happ); [exact ED|].
    destruct HI as (I1 & I2 & (P1 & P2 & P3 & P4 & P5)). unfold Mvp80RegOnly.PX.
    cbn [set_m set_ebus3 set_dbus set_l1i set_fu set_wbus set_cbus x_m x_ebus x_pend m_mem m_l3 m_cbus].
    split5; try assumption; apply bus_ok_connect; assumption.
  Qed.

  (* --- eu.go --- *)

  Lemma eu_flush8_inv : forall y i e y' e', eu_flush8 y i e = Ok (y', e') -> INV y -> RNM e -> INV y' /\ EU e'.
  Proof.
    intros y i e y' e' H HI HR. unfold eu_flush8 in H. pose proof HI as (I1 & I2 & I3).
    destruct (nth_error (y_ccs y) i) as [c|] eqn:EN; [|discriminate].
    assert (HC : cc_idle c).
    { rewrite I2 in EN. apply nth_error_In in EN. rewrite Forall_forall in Hccs. apply Hccs. exact EN. }
    rewrite (cc_flush_idle (y_msi y) c HC) in H. cbn [bind fst snd] in H. inversion H; subst.
    split.
    - split; [exact I1|]. split; [|exact I3].
      unfold put_cc. cbn [set_ymsi y_ccs set_ccs]. rewrite (set_nth6_same _ _ _ EN). exact I2.
    - split; [left; reflexivity|exact HR].
  Qed.

  Ltac eu_done ER HN :=
    split; [left; reflexivity|
            let r' := fresh "r'" in let Hr' := fresh "Hr'" in
            intros r' Hr'; cbn [h_runner] in Hr'; rewrite ?ER in Hr'; inversion Hr'; subst; exact HN].

  (* an execute unit running an instruction that is not a store never reaches cc.write *)
  Lemma eu_run8_inv : forall labels ord cycle y i e y' e' o,
    eu_run8 labels ord cycle y i e = Ok (y', e', o) -> INV y -> RNM e -> INV y' /\ EU e'.
  Proof.
    intros labels ord cycle y i e y' e' o H HI HR. unfold eu_run8 in H. cbv zeta in H. unfold RNM in HR.
    destruct (h_runner e) as [r|] eqn:ER; [|discriminate].
    assert (HN : NM r) by (apply HR; first [exact ER | reflexivity]).
    destruct (instr_Run _ _ _ _ _ _) as [exe|er|] eqn:EX; [| |discriminate].
    2: { inversion H; subst. split; [apply INV_set_x; [exact HI|reflexivity]|eu_done ER HN]. }
    rewrite (nomem_no_change _ _ _ _ _ _ _ HN EX) in H.
    destruct (Return exe); [inversion H; subst; split; [apply INV_set_x; [exact HI|reflexivity]|eu_done ER HN]|].
    split_hyp H; try discriminate; inversion H; subst;
      (split; [apply INV_set_x; [exact HI|reflexivity]|eu_done ER HN]).
  Qed.

  (* prepareRun on an instruction that is not a load goes straight to run *)
  Lemma eu_prepare8_inv : forall labels ord cycle y i e y' e' o,
    eu_prepare8 labels ord cycle y i e = Ok (y', e', o) -> INV y -> EU e -> INV y' /\ EU e'.
  Proof.
    intros labels ord cycle y i e y' e' o H HI HE. unfold eu_prepare8 in H. cbv zeta in H.
    destruct (negb _); [inversion H; subst; split; assumption|].
    pose proof HE as [_ HR]. unfold RNM in HR.
    destruct (h_runner e) as [r|] eqn:ER; [|discriminate].
    assert (HN : NM r) by (apply HR; first [exact ER | reflexivity]).
    destruct (q_recv r) as [ch|].
    - destruct (aget ch (x_chan (y_x y))) as [v|]; [|inversion H; subst; split; assumption].
      cbv beta iota zeta in H. rewrite nomem_no_read in H by exact HN.
      eapply eu_run8_inv; [exact H| |].
      + apply INV_set_x; [exact HI|]. cbn [set_x y_x]. rewrite core_bu_assert3. reflexivity.
      + intros r' Hr'. cbn [h_runner] in Hr'. inversion Hr'; subst. exact HN.
    - cbv beta iota zeta in H. rewrite nomem_no_read in H by exact HN.
      eapply eu_run8_inv; [exact H| |].
      + apply INV_set_x; [exact HI|]. cbn [set_x y_x]. rewrite core_bu_assert3. reflexivity.
      + intros r' Hr'. cbn [h_runner] in Hr'. inversion Hr'; subst. exact HN.
  Qed.

  Lemma eu_cycle8_inv : forall labels ord cycle y i e y' e' o,
    eu_cycle8 labels ord cycle y i e = Ok (y', e', o) -> INV y -> EU e -> INV y' /\ EU e'.
  Proof.
    intros labels ord cycle y i e y' e' o H HI HE. unfold eu_cycle8 in H. cbv zeta in H.
    pose proof HE as [HC HR].
    match type of H with (if ?pre then _ else _) = _ => destruct pre end.
    - destruct (eu_pending8 y e); [discriminate|].
      apply bind_ok in H as ([y1 e1] & EF & H). inversion H; subst.
      eapply eu_flush8_inv; eassumption.
    - destruct HC as [HC|HC]; rewrite HC in H.
      + destruct (pick8 _ _ _) as [[r q']|] eqn:EP; [|inversion H; subst; split; assumption].
        pose proof HI as (I1 & I2 & (P1 & P2 & P3 & P4 & P5)).
        destruct (pick8_ok NM _ _ _ _ _ EP (proj2 P4)) as [HN HQ].
        eapply eu_prepare8_inv; [exact H| |].
        * apply INV_set_x_px; [exact HI|]. unfold Mvp80RegOnly.PX. cbn [set_ebus3 x_m x_ebus x_pend].
          split5; try assumption. apply bus_ok_setq; assumption.
        * split; [right; reflexivity|]. intros r' Hr'. cbn [h_runner] in Hr'. inversion Hr'; subst. exact HN.
      + eapply eu_prepare8_inv; eassumption.
  Qed.

  (* --- the loops over the execute units --- *)

  Lemma eus_main8_inv : forall labels ord cycle eus y i acc y' eus' o,
    eus_main8 labels ord cycle y i eus acc = Ok (y', eus', o) -> INV y -> Forall EU eus -> INV y' /\ Forall EU eus'.
  Proof.
    intros labels ord cycle. induction eus as [|e t IH]; intros y i acc y' eus' o H HI HE; cbn [eus_main8] in H.
    - inversion H; subst. split; [exact HI|constructor].
    - inversion HE as [|? ? HE1 HET]; subst.
      apply bind_ok in H as ([[y1 e1] o1] & E1 & H).
      apply eu_cycle8_inv in E1; [|exact HI|apply EU_set_hseq; exact HE1]. destruct E1 as [HI1 HE1'].
      destruct (y_err o1).
      + inversion H; subst. split; [exact HI1|constructor; assumption].
      + cbv zeta in H. apply bind_ok in H as ([[y2 t'] acc2] & E2 & H). inversion H; subst.
        apply IH in E2; [|exact HI1|exact HET]. destruct E2 as [A B]. split; [exact A|constructor; assumption].
  Qed.

  Lemma eus_drain8_inv : forall labels ord cycle eus y i y' eus' er,
    eus_drain8 labels ord cycle y i eus = Ok (y', eus', er) -> INV y -> Forall EU eus -> INV y' /\ Forall EU eus'.
  Proof.
    intros labels ord cycle. induction eus as [|e t IH]; intros y i y' eus' er H HI HE; cbn [eus_drain8] in H.
    - inversion H; subst. split; [exact HI|constructor].
    - inversion HE as [|? ? HE1 HET]; subst. destruct (eu_empty8 e).
      + apply bind_ok in H as ([[y2 t'] er2] & E2 & H). inversion H; subst.
        apply IH in E2; [|exact HI|exact HET]. destruct E2 as [A B]. split; [exact A|constructor; assumption].
      + apply bind_ok in H as ([[y1 e1] o1] & E1 & H).
        apply eu_cycle8_inv in E1; [|exact HI|exact HE1]. destruct E1 as [HI1 HE1'].
        destruct (y_err o1).
        * inversion H; subst. split; [exact HI1|constructor; assumption].
        * apply bind_ok in H as ([[y2 t'] er2] & E2 & H). inversion H; subst.
          apply IH in E2; [|exact HI1|exact HET]. destruct E2 as [A B]. split; [exact A|constructor; assumption].
  Qed.

  Lemma eus_flush8_inv : forall labels ord from eus y i acc y' eus' acc',
    eus_flush8 labels ord from y i eus acc = Ok (y', eus', acc') -> INV y -> Forall EU eus -> INV y' /\ Forall EU eus'.
  Proof.
    intros labels ord from. induction eus as [|e t IH]; intros y i acc y' eus' acc' H HI HE; cbn [eus_flush8] in H.
    - inversion H; subst. split; [exact HI|constructor].
    - inversion HE as [|? ? HE1 HET]; subst. destruct (eu_empty8 e && negb (eu_pending8 y e)).
      + apply bind_ok in H as ([[y2 t'] acc2] & E2 & H). inversion H; subst.
        apply IH in E2; [|exact HI|exact HET]. destruct E2 as [A B]. split; [exact A|constructor; assumption].
      + apply bind_ok in H as ([[y1 e1] o1] & E1 & H).
        apply eu_cycle8_inv in E1; [|exact HI|exact HE1]. destruct E1 as [HI1 HE1'].
        destruct (y_err o1).
        * inversion H; subst. split; [exact HI1|constructor; assumption].
        * cbv zeta in H. apply bind_ok in H as ([[y2 t'] acc2] & E2 & H). inversion H; subst.
          apply IH in E2; [|exact HI1|exact HET]. destruct E2 as [A B]. split; [exact A|constructor; assumption].
  Qed.

  Lemma eus_final8_inv : forall labels ord cycle eus y i y' eus' b,
    eus_final8 labels ord cycle y i eus = Ok (y', eus', b) -> INV y -> Forall EU eus -> INV y' /\ Forall EU eus'.
  Proof.
    intros labels ord cycle. induction eus as [|e t IH]; intros y i y' eus' b H HI HE; cbn [eus_final8] in H.
    - inversion H; subst. split; [exact HI|constructor].
    - inversion HE as [|? ? HE1 HET]; subst. cbv zeta in H.
      match type of H with (if ?cond then _ else _) = _ => destruct cond end.
      + apply bind_ok in H as ([[y2 t'] b2] & E2 & H). inversion H; subst.
        apply IH in E2; [|exact HI|exact HET]. destruct E2 as [A B]. split; [exact A|constructor; assumption].
      + destruct (nth_error (y_ccs y) i); [|discriminate].
        apply bind_ok in H as ([[y1 e1] o1] & E1 & H).
        apply eu_cycle8_inv in E1; [|exact HI|exact HE1]. destruct E1 as [HI1 HE1'].
        apply bind_ok in H as ([[y2 t'] b2] & E2 & H). inversion H; subst.
        apply IH in E2; [|exact HI1|exact HET]. destruct E2 as [A B]. split; [exact A|constructor; assumption].
  Qed.

  Lemma eus_flush_all8_inv : forall eus y i y' eus',
    eus_flush_all8 y i eus = Ok (y', eus') -> INV y -> Forall EU eus -> INV y' /\ Forall EU eus'.
  Proof.
    induction eus as [|e t IH]; intros y i y' eus' H HI HE; cbn [eus_flush_all8] in H.
    - inversion H; subst. split; [exact HI|constructor].
    - inversion HE as [|? ? HE1 HET]; subst.
      apply bind_ok in H as ([y1 e1] & E1 & H).
      apply eu_flush8_inv in E1; [|exact HI|exact (proj2 HE1)]. destruct E1 as [HI1 HE1'].
      apply bind_ok in H as ([y2 t'] & E2 & H). cbn [fst snd] in *. inversion H; subst.
      apply IH in E2; [|exact HI1|exact HET]. destruct E2 as [A B]. split; [exact A|constructor; assumption].
  Qed.

  (* --- the end of Run --- *)

  (* finish8 with empty caches returns the memory unchanged and adds 0 cycles *)
  Lemma finish8_idle : forall ord y cycle, INV y ->
    finish8 ord y cycle =
    MDone (cycle + (0 + 0)) (mk_arch (rat_flush3 ord cycle (rat_commit3 ord cycle (y_x (put_mw y (mw_of y))))) mem0).
  Proof.
    intros ord y cycle (I1 & I2 & (P1 & P2 & _)). unfold finish8.
    rewrite I2, (ccs_writeback_idle ccs0 (mw_of y) 0 Hccs). cbn [bind fst snd mw_of w_l3].
    rewrite P2, Hl3. cbn [l3_writeback_lines bind fst snd w_mem]. cbn [mw_of w_mem]. rewrite P1. reflexivity.
  Qed.

  (* --- one tick --- *)

  Definition SI (s : st8) : Prop := INV (v_y s) /\ Forall EU (v_eus s) /\ Forall WU (v_wus s).

  Definition res_ok (r : step_res8) : Prop :=
    match r with
    | VCont s' => SI s'
    | VDone (MDone _ st') _ => mem st' = mem0
    | VDone _ _ => True
    end.

  Lemma res_of8_ok : forall {A} os (o : outcome A) k,
    (forall x, o = Ok x -> res_ok (k x)) -> res_ok (res_of8 os o k).
  Proof. intros A os o k H. destruct o; cbn [res_of8 res_ok]; auto. Qed.

  Lemma ret_check8_ok : forall s, SI s -> res_ok (ret_check8 s).
  Proof.
    intros s HS. unfold ret_check8.
    match goal with |- res_ok (if ?c then _ else _) => destruct c end; exact HS.
  Qed.

  Lemma flush_advance8_ok : forall s k seq pc from empty, SI s -> res_ok (flush_advance8 s k seq pc from empty).
  Proof.
    intros s k seq pc from empty (HI & HE & HW). unfold flush_advance8.
    destruct (flush_next _ _ _) as [k'|]; [split; [exact HI|split; assumption]|].
    destruct empty; [|split; [exact HI|split; assumption]].
    cbv zeta. apply res_of8_ok. intros [y1 eus1] EF. cbn [fst snd].
    apply eus_flush_all8_inv in EF; [| |exact HE].
    - destruct EF as [A B]. split; [exact A|split; assumption].
    - apply INV_set_x_px; [exact HI|]. apply do_flush3_px. destruct HI as (_ & _ & I3). exact I3.
  Qed.

  Lemma Forall_EU_set_hseq : forall eus s, Forall EU eus -> Forall EU (map (fun e => set_hseq e s) eus).
  Proof. intros eus s H. apply Forall_map. eapply Forall_impl; [|exact H]. intros e HE. exact HE. Qed.

  Lemma back8_ok : forall s cycle y eus1 o,
    Forall WU (v_wus s) -> INV y -> Forall EU eus1 -> res_ok (back8 s cycle (y, eus1, o)).
  Proof.
    intros s cycle y eus1 o HW HI HE. unfold back8.
    destruct (y_err o); [exact I|].
    apply res_of8_ok. intros [x1 wus1] EW. cbv zeta. cbn [fst snd].
    apply wus_cycle8_px in EW; [|exact HW]. destruct EW as [EC HW1].
    assert (HI1 : INV (set_x y x1)) by (apply INV_set_x; assumption).
    destruct (y_ret o).
    - apply ret_check8_ok. split; [|split; assumption]. cbn [v_y]. unfold wbus_connect8.
      apply INV_set_x; [exact HI1|]. apply core_wbus_connect3.
    - destruct (y_flush o).
      + split; [exact HI1|split; [apply Forall_EU_set_hseq; exact HE|exact HW1]].
      + destruct (is_empty8 _ _ _); (split; [exact HI1|split; assumption]).
  Qed.

  Lemma Forall_set_nth6 : forall {A} (P : A -> Prop) l i a, Forall P l -> P a -> Forall P (set_nth6 l i a).
  Proof.
    intros A P. induction l as [|h t IH]; intros i a HL HA; [constructor|].
    inversion HL as [|? ? H1 H2]; subst. destruct i as [|i]; cbn [set_nth6]; constructor; auto.
  Qed.

  Theorem step8_ok : forall labels ord s, SI s -> res_ok (step8 app labels ord s).
  Proof.
    intros labels ord s (HI & HE & HW). unfold step8. cbv zeta.
    destruct (v_mode s) as [| |seq pc from|k seq pc from empty|] eqn:EM.
    - (* PNormal *)
      apply res_of8_ok. intros y1 E1. apply front8_inv in E1; [|exact HI].
      apply res_of8_ok. intros y2 E2. apply snoops8_inv in E2; [|exact E1].
      apply res_of8_ok. intros [[y3 eus1] o] E3. apply eus_main8_inv in E3; [|exact E2|exact HE].
      destruct E3 as [A B]. apply back8_ok; assumption.
    - (* PRet *)
      apply res_of8_ok. intros y1 E1. apply snoops8_inv in E1; [|exact HI].
      apply res_of8_ok. intros [[y2 eus1] er] E2. apply eus_drain8_inv in E2; [|exact E1|exact HE].
      destruct E2 as [A B]. destruct er; [exact I|].
      apply res_of8_ok. intros [x1 wus1] EW. cbv zeta. cbn [fst snd].
      apply wus_cycle8_px in EW; [|exact HW]. destruct EW as [EC HW1].
      apply ret_check8_ok. split; [|split; assumption]. cbn [v_y]. unfold wbus_connect8.
      apply INV_set_x; [apply INV_set_x; assumption|]. apply core_wbus_connect3.
    - (* PFlushE *)
      apply res_of8_ok. intros y1 E1. apply snoops8_inv in E1; [|exact HI].
      apply res_of8_ok. intros [[y2 eus1] acc] E2. apply eus_flush8_inv in E2; [|exact E1|exact HE].
      destruct E2 as [A B]. destruct (a_err acc); [exact I|].
      apply flush_advance8_ok. split; [|split; assumption]. cbn [v_y]. unfold wbus_connect8.
      apply INV_set_x; [exact A|]. apply core_wbus_connect3.
    - (* PFlushW *)
      destruct (nth_error (v_wus s) k) as [w|] eqn:EN; [|exact I].
      apply res_of8_ok. intros [x1 w1] EW.
      assert (HWk : WU w). { rewrite Forall_forall in HW. apply HW. eapply nth_error_In; exact EN. }
      apply wu_cycle8_px in EW; [|exact HWk]. destruct EW as [EC HW1].
      apply flush_advance8_ok. cbn [fst snd]. split; [|split].
      + cbn [v_y]. apply INV_set_x; assumption.
      + exact HE.
      + cbn [v_wus]. apply Forall_set_nth6; assumption.
    - (* PFinal *)
      apply res_of8_ok. intros y1 E1. apply snoops8_inv in E1; [|exact HI].
      apply res_of8_ok. intros [[y2 eus1] busy] E2. apply eus_final8_inv in E2; [|exact E1|exact HE].
      destruct E2 as [A B].
      match goal with |- res_ok (if ?c then _ else _) => destruct c end.
      + rewrite (finish8_idle ord y2 _ A). reflexivity.
      + split; [exact A|split; assumption].
  Qed.

  Lemma run8_st_ok : forall fuel labels ord s c st' os,
    SI s -> run8_st fuel app labels ord s = inl (MDone c st', os) -> mem st' = mem0.
  Proof.
    induction fuel as [|f IH]; intros labels ord s c st' os HS H; cbn [run8_st] in H; [discriminate|].
    pose proof (step8_ok labels ord s HS) as HR.
    destruct (step8 app labels ord s) as [r os1|s1].
    - inversion H; subst. exact HR.
    - eapply IH; [exact HR|exact H].
  Qed.

  Lemma run8_st_SI : forall fuel labels ord s s', SI s -> run8_st fuel app labels ord s = inr s' -> SI s'.
  Proof.
    induction fuel as [|f IH]; intros labels ord s s' HS H; cbn [run8_st] in H.
    - inversion H; subst. exact HS.
    - pose proof (step8_ok labels ord s HS) as HR.
      destruct (step8 app labels ord s) as [r os1|s1]; [discriminate|]. eapply IH; [exact HR|exact H].
  Qed.
End Mach.

(* ------------------------------------------------------------------ *)
(* 5. NewCPU establishes the invariant; the end-to-end theorem          *)
(* ------------------------------------------------------------------ *)

Lemma init8_SI : forall par ord app st s,
  init8 par ord app st = Ok s ->
  exists c3 ccs0, lines c3 = [] /\ Forall cc_idle ccs0 /\ SI (mem st) c3 msi_new ccs0 s.
Proof.
  intros par ord app st s H. unfold init8 in H.
  destruct (new_cache l1LineSize l1Size) as [ci| |]; try discriminate.
  destruct (new_cache l3LineSize8 l3Size8) as [c3| |] eqn:E3; try discriminate.
  destruct (new_cache l1dLineSize l1dSize) as [cd| |] eqn:ED; try discriminate.
  cbv zeta in H. inversion H; subst. clear H.
  assert (H3 : lines c3 = []) by (vm_compute in E3; inversion E3; reflexivity).
  assert (HD : existing_lines cd = Ok []) by (vm_compute in ED; inversion ED; reflexivity).
  exists c3, (map (fun i => mk_cc (Z.of_nat i) cd RdStart WrStart [] [] [] None) (seq 0 par)).
  split; [exact H3|].
  assert (HC : Forall cc_idle (map (fun i => mk_cc (Z.of_nat i) cd RdStart WrStart [] [] [] None) (seq 0 par))).
  { apply Forall_map. apply Forall_forall. intros i _. unfold cc_idle. cbn [c_read c_write c_snoop c_rsems c_wsems c_l1d].
    repeat split; try reflexivity. exact HD. }
  split; [exact HC|].
  split; [|split].
  - cbn [v_y]. split; [reflexivity|]. split; [reflexivity|].
    unfold PX. cbn [y_x x_m x_ebus x_pend m_mem m_l3 m_cbus].
    split5; try reflexivity; try apply bus_ok_new. constructor.
  - cbn [v_eus]. apply Forall_forall. intros e HE. apply repeat_spec in HE. subst.
    split; [left; reflexivity|]. intros r Hr. discriminate Hr.
  - cbn [v_wus]. apply Forall_forall. intros w HW. apply repeat_spec in HW. subst. reflexivity.
Qed.

(* on a program without loads and stores a run of MVP-8.0 that returns returns the initial memory *)
Theorem mvp80_regonly_memory_unchanged : forall par ord fuel app labels st c st' os,
  regonly app = true ->
  mvp80_run_os par ord fuel app labels st = (MDone c st', os) -> mem st' = mem st.
Proof.
  intros par ord fuel app labels st c st' os HA H. unfold mvp80_run_os in H.
  destruct (init8 par ord app st) as [s| |] eqn:EI; try discriminate.
  destruct (init8_SI _ _ _ _ _ EI) as (c3 & ccs0 & H3 & HC & HS).
  destruct (run8_st fuel app labels ord s) as [r|s'] eqn:ER; [|discriminate].
  subst r.
  exact (run8_st_ok (mem st) c3 msi_new ccs0 app HA eq_refl eq_refl HC H3 fuel labels ord s c st' os HS ER).
Qed.

(* the invariant holds in every state a run reaches: the memory system is never used *)
Theorem mvp80_regonly_memsys_idle : forall par ord fuel app labels st s s',
  regonly app = true -> init8 par ord app st = Ok s -> run8_st fuel app labels ord s = inr s' ->
  y_msi (v_y s') = msi_new /\ y_ccs (v_y s') = y_ccs (v_y s) /\
  m_mem (x_m (y_x (v_y s'))) = mem st /\ m_l3 (x_m (y_x (v_y s'))) = m_l3 (x_m (y_x (v_y s))) /\
  Forall (fun e => h_co e = HNone \/ h_co e = HPrepare) (v_eus s') /\ Forall (fun w => u_co w = WNone) (v_wus s').
Proof.
  intros par ord fuel app labels st s s' HA EI ER.
  destruct (init8_SI _ _ _ _ _ EI) as (c3 & ccs0 & H3 & HC & HS).
  pose proof (run8_st_SI (mem st) c3 msi_new ccs0 app HA eq_refl eq_refl HC H3 fuel labels ord s s' HS ER) as HS'.
  destruct HS as ((A1 & A2 & (A3 & A4 & _)) & _ & _).
  destruct HS' as ((B1 & B2 & (B3 & B4 & _)) & BE & BW).
  split; [exact B1|]. split; [congruence|]. split; [exact B3|]. split; [congruence|].
  split; [|exact BW]. eapply Forall_impl; [|exact BE]. intros e [HE _]. exact HE.
Qed.

(* the hypotheses are satisfiable by a run that returns: li t0, 11 ; beq zero, zero, L1 ; add t1, t0, t0 ;
   L1: li a0, 9 ; ret on three cores (a mispredicted branch, a flush, a wrong-path instruction) *)
Definition ro_prog : list instr :=
  [I_li (mk_li 5 11); I_beq (mk_beq 0 0 1); I_add (mk_add 6 5 5); I_li (mk_li 10 9); I_ret mk_ret].
Example regonly_run_returns :
  regonly ro_prog = true /\
  reg_of (mvp80_run 3 ord_asc 4000 ro_prog (one_label 12) (st_of [] [(0, 5); (70, 3)])) 10 = Some 9.
Proof. vm_compute. split; reflexivity. Qed.

Print Assumptions nomem_no_read.
Print Assumptions nomem_no_change.
Print Assumptions snoops8_idle.
Print Assumptions eu_cycle8_inv.
Print Assumptions finish8_idle.
Print Assumptions step8_ok.
Print Assumptions mvp80_regonly_memsys_idle.
Print Assumptions mvp80_regonly_memory_unchanged.
