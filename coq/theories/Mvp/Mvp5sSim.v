(* The MVP-5 model on a program whose stores may miss in the L1D is, cycle for cycle,
   its skeleton (Mvp5sSkel.v) plus the values of the sequential machine.  The write
   side (write bus, write unit, drain, landed memory) is that of Mvp4sSim.v; the front
   end and the branch unit are those of Mvp5mSim.v. *)
From Coq Require Import ZArith List Bool Lia.
From Maj Require Import Base.Outcome Base.GoInt Base.GoTypes Isa.Spec Isa.Embed Isa.Seq Isa.Refine.
From Maj Require Import Gen.Latency Gen.RiscTables Gen.Opcodes Comp.Cache Comp.CacheSpec Comp.MapFacts Comp.CacheProofs.
From Maj Require Import Mvp.Mvp12 Mvp.Mvp12Proofs Mvp.Mvp3 Mvp.Mvp3Proofs Mvp.Mvp4 Mvp.Mvp5
     Mvp.Mvp4Skel Mvp.Mvp4Inv Mvp.Mvp4Units Mvp.Mvp4Front Mvp.Mvp4Sim Mvp.Mvp4mSkel Mvp.Mvp4mInv Mvp.Mvp4mFront Mvp.Mvp4mSim
     Mvp.Mvp5Skel Mvp.Mvp5Inv Mvp.Mvp5Front Mvp.Mvp5Sim Mvp.Mvp5mSkel Mvp.Mvp5mFront Mvp.Mvp5mSim Mvp.Mvp5mProofs
     Mvp.Mvp4sSkel Mvp.Mvp4sFront Mvp.Mvp4sSim Mvp.Mvp5sSkel Mvp.Mvp5sFront.
Import ListNotations.
Open Scope Z_scope.

Lemma eu5_cycle_s_full labels regs mem pw l1d ce wbus bu fu du ebus dt la e1 ebus2 dt1 act :
  eu_pending_read ce = false -> eu_memory ce = None -> sbus_can_add wbus = false ->
  sks_eu true ce ebus pw dt la = (e1, ebus2, dt1, act) ->
  act = ANone /\ dt1 = dt /\
  eu5_cycle labels (mk_env5 regs mem pw l1d ce wbus bu fu du) ebus = inl (Ok (mk_env5 regs mem pw l1d e1 wbus bu fu du, ebus2, eu_none)) /\
  eu_pending_read e1 = false /\ eu_memory e1 = None.
Proof.
  intros Hpr Hm Hadd. unfold sks_eu, eu5_cycle, eu_intake, set_rem, set_eu.
  cbn [v_regs v_mem v_pw v_l1d v_eu v_wbus v_bu v_fu v_du].
  rewrite Hpr, Hadd. cbn [andb negb].
  destruct (eu_processing ce) eqn:Ep.
  - cbn [negb]. destruct (negb (eu_remaining ce - 1 =? 0)); intros H; injection H as <- <- <- <-;
      cbn [eu_pending_read eu_memory]; rewrite ?Hpr, ?Hm; auto.
  - unfold sbus_get. destruct (sb_current ebus) as [[i pc]|].
    + cbn [negb eu_remaining eu_runner eu_processing eu_pending_read eu_addrs eu_memory]. fold (cyc_of i).
      destruct (negb (cyc_of i - 1 =? 0)); intros H; injection H as <- <- <- <-; cbn [eu_pending_read eu_memory]; rewrite ?Hm; auto.
    + cbn [negb]. intros H. injection H as <- <- <- <-. rewrite Hpr, Hm. repeat split; auto; destruct ce; reflexivity.
Qed.

Lemma eu5_run_store_miss labels regs mem pw l1d e2 wbus bu fu du i pc bs d2 :
  instr_Run i (rget regs) labels pc [] 0 = Ok (embed (EStore bs)) -> uncond i = false ->
  get_all l1d (map fst bs) [] = Ok (d2, None) ->
  eu5_run labels (mk_env5 regs mem pw l1d e2 wbus bu fu du) i pc [] =
    inl (Ok (mk_env5 regs mem (pw_add pw (instr_WriteRegisters i)) d2
                     (mk_eu false (eu_pending_read e2) (eu_addrs e2) (eu_memory e2) (eu_remaining e2) (eu_runner e2))
                     (sbus_add wbus (embed (EStore bs), instr_WriteRegisters i)) bu fu du, eu_none)).
Proof.
  intros H Hu Hg. unfold eu5_run, uncond in *. cbn [v_regs v_mem v_pw v_l1d v_eu v_wbus v_bu v_fu v_du]. rewrite H.
  cbn [embed Return MemoryChange MemoryChanges PcChange]. rewrite Hg. cbn [bind]. rewrite Hu. reflexivity.
Qed.

Section SimS5.
  Variables (app : list instr) (labels : Z -> option Z).
  Hypothesis Happ : wf_app app.
  Hypothesis Hlab : wf_labels labels.

  Inductive RMs5 (la : list Z) : m5state -> sks5 -> arch -> Prop :=
  | RMs5_intro a rg m l1d sc tc ex wp wc ce st :
      WR l1d sc st rg m wp wc (y_wp a) (y_wc a) -> s_rec sc = y_dt a ->
      Forall int32 (regs st) -> Forall int8 (mem st) ->
      eu_erase ce = y_eu a ->
      (forall bytes, eu_memory ce = Some bytes -> bytes = map (mget (mem st)) la) ->
      (eu_pending_read ce = true -> eu_memory ce = None -> forall x, In x la -> view sc x = None) ->
      (eu_pending_read ce = true -> wp = None /\
         forall i pc, eu_runner ce = Some (i, pc) -> forall r, In r (instr_ReadRegisters i) -> rget (regs st) r = rget rg r) ->
      RMs5 la (mk_m5 rg m (y_pw a) (y_l1i a) l1d (y_fu a) (y_du a) (y_dbus a) (y_ebus a) ce (mk_sbus wp wc) (y_wu a)
                     (mk_bu5 tc ex (y_btb a))) a st.

  (* the end of an iteration in which nothing special (no ret, no flush) happens *)
  Lemma tail_step5 f cyc la st rg m pw1 l1d sc ce1 wp1 wc tc1 ex1 btb1 fuX duX l1i1 dbus2 ebus2 w swp1 swc pw2 w2 swp2 swc2 e1 l1 l2 :
    WR l1d sc st rg m wp1 wc swp1 swc -> Forall int32 (regs st) -> Forall int8 (mem st) ->
    eu_erase ce1 = e1 ->
    (forall bytes, eu_memory ce1 = Some bytes -> bytes = map (mget (mem st)) la) ->
    (eu_pending_read ce1 = true -> eu_memory ce1 = None -> forall x, In x la -> view sc x = None) ->
    (eu_pending_read ce1 = true -> wp1 = None /\
       forall i pc, eu_runner ce1 = Some (i, pc) -> forall r, In r (instr_ReadRegisters i) -> rget (regs st) r = rget rg r) ->
    sks_wu pw1 w swp1 swc = (pw2, w2, swp2, swc2) ->
    exists s',
      m5_tail f app labels w l1i1 dbus2 (cyc + 1)
              (inl (Ok (mk_env5 rg m pw1 l1d ce1 (mk_sbus wp1 wc) (mk_bu5 tc1 ex1 btb1) fuX duX, ebus2, eu_none)))
      = (if m5_is_complete s' then m5_finish s' (cyc + 1) else m5run f app labels s' (cyc + 1)) /\
      m5_is_complete s' = sks5_complete (mk_sks5 fuX duX l1i1 dbus2 ebus2 e1 pw2 swp2 swc2 w2 (s_rec sc) btb1 l1 l2) /\
      RMs5 la s' (mk_sks5 fuX duX l1i1 dbus2 ebus2 e1 pw2 swp2 swc2 w2 (s_rec sc) btb1 l1 l2) st.
  Proof.
    intros HW Hi3 Hm8 He Hb Hu Hrd Ew.
    destruct (wu_step _ _ _ _ _ _ _ _ _ _ _ _ _ _ _ HW Hi3 Ew) as (rg' & m' & wp' & wc' & Ewu & HW' & Hrg).
    exists (mk_m5 rg' m' pw2 l1i1 l1d fuX duX dbus2 ebus2 ce1 (mk_sbus wp' wc') w2 (mk_bu5 tc1 ex1 btb1)).
    split; [|split].
    - unfold m5_tail. cbn [v_regs v_mem v_pw v_l1d v_eu v_wbus v_bu v_fu v_du eu_none eo_ret eo_flush]. rewrite Ewu. reflexivity.
    - unfold m5_is_complete, sks5_complete.
      cbn [t_fu t_eu t_wu t_dbus t_ebus t_wbus y_fu y_eu y_wu y_dbus y_ebus y_wp y_wc].
      pose proof (omap_full _ _ _ _ (wr_sp _ _ _ _ _ _ _ _ _ HW')) as H1. pose proof (omap_full _ _ _ _ (wr_sc _ _ _ _ _ _ _ _ _ HW')) as H2.
      assert (Hemp : sbus_is_empty (mk_sbus wp' wc') = negb (is_full swp2) && negb (is_full swc2)).
      { rewrite <- H1, <- H2. unfold sbus_is_empty. cbn [sb_pending sb_current]. destruct wp', wc'; reflexivity. }
      rewrite Hemp, <- He, andb_assoc. unfold eu_erase. cbn [eu_processing]. reflexivity.
    - apply (RMs5_intro la (mk_sks5 fuX duX l1i1 dbus2 ebus2 e1 pw2 swp2 swc2 w2 (s_rec sc) btb1 l1 l2) rg' m' l1d sc tc1 ex1 wp' wc' ce1 st); auto.
      intros Hp. destruct (Hrd Hp) as [Hwp1 Hr]. subst wp1.
      assert (Hwp' : wp' = None).
      { pose proof (omap_none_r _ _ _ (wr_sp _ _ _ _ _ _ _ _ _ HW)) as S1.
        assert (S2 : swp2 = None).
        { unfold sks_wu in Ew. destruct (wu_pending w); [injection Ew as _ _ <- _; exact S1|].
          destruct swc as [x|]; [destruct (wi_sa x)|]; injection Ew as _ _ <- _; reflexivity. }
        pose proof (wr_sp _ _ _ _ _ _ _ _ _ HW') as S3. rewrite S2 in S3. apply omap_none in S3. exact S3. }
      split; [exact Hwp'|]. intros i pc Hrun r Hin. subst wp'.
      destruct Hrg as [[_ ->] | [_ ->]]; [apply (Hr i pc Hrun r Hin)|].
      pose proof (wr_regs _ _ _ _ _ _ _ _ _ HW) as R1. cbn [cur_regs] in R1. rewrite R1. reflexivity.
  Qed.

  Lemma finish_s5 la s a st hev rest stf cyc :
    RMs5 la s a st -> FS5 app hev a -> sks5_complete a = true -> evs_wf app (hev :: rest) ->
    sexecm app labels st (hev :: rest) stf ->
    m5_finish s cyc = MDone (cyc + MemoryAccess * zlen (y_dt a)) stf.
  Proof.
    intros HR HF Hc Hwf HS.
    destruct HR as [a rg m l1d sc tc ex wp wc ce st HW Hdt Hi3 Hm8 Hce Hbytes Hunc Hrd].
    destruct (completes_exit5 app hev rest a HF Hc Hwf) as [_ Hout].
    destruct (sexecm_out app labels _ _ _ _ HS Hout) as [-> _].
    unfold sks5_complete in Hc. repeat (apply andb_prop in Hc as [Hc ?]).
    apply negb_true_iff in H, H0.
    assert (E1 : y_wp a = None) by (destruct (y_wp a); [discriminate | reflexivity]).
    assert (E2 : y_wc a = None) by (destruct (y_wc a); [discriminate | reflexivity]).
    rewrite E1, E2 in HW.
    pose proof (omap_none _ _ _ (wr_sp _ _ _ _ _ _ _ _ _ HW)). pose proof (omap_none _ _ _ (wr_sc _ _ _ _ _ _ _ _ _ HW)). subst wp wc.
    destruct (wr_empty_mem _ _ _ _ _ HW) as [Hregs HV].
    unfold m5_finish. cbn [t_l1d t_mem t_regs]. rewrite (flush_ok _ _ _ _ HV), Hdt. rewrite <- Hregs. destruct st; reflexivity.
  Qed.

  Lemma sim_exec_s5 f a hev rest st stf fuA du1 l1i1 dbus2 ebus2 cyc rg m' d' sc' e2 wc tc ex i bytes :
    WR d' sc' st rg m' None wc None (y_wc a) -> y_wp a = None ->
    Forall int32 (regs st) -> Forall int8 (mem st) ->
    (forall r, In r (instr_ReadRegisters i) -> rget (regs st) r = rget rg r) ->
    0 <= ev_pc hev < 2147483644 -> nth_error app (Z.to_nat (ev_pc hev / 4)) = Some i ->
    bytes = map (mget (mem st)) (ev_la hev) ->
    eu_memory e2 = None -> eu_pending_read e2 = false ->
    (ev_la hev = [] -> exists tc0 ex0, tc = fst (asrt (y_btb a) tc0 ex0 i (ev_pc hev)) /\
                                       ex = snd (asrt (y_btb a) tc0 ex0 i (ev_pc hev))) ->
    sexecm app labels st (hev :: rest) stf ->
    match sks5_exec a fuA du1 l1i1 dbus2 ebus2 (eu_done e2) (s_rec sc') i (ev_pc hev) (hev :: rest) with
    | YStuck => True
    | YFin dc dt =>
        m5_tail f app labels (y_wu a) l1i1 dbus2 (cyc + 1)
                (eu5_post (eu5_run labels (mk_env5 rg m' (y_pw a) d' e2 (mk_sbus None wc) (mk_bu5 tc ex (y_btb a)) fuA du1)
                                   i (ev_pc hev) bytes) ebus2)
        = MDone (cyc + dc + MemoryAccess * zlen dt) stf
    | YStep a' path' dc =>
        exists s' st',
          m5_tail f app labels (y_wu a) l1i1 dbus2 (cyc + 1)
                  (eu5_post (eu5_run labels (mk_env5 rg m' (y_pw a) d' e2 (mk_sbus None wc) (mk_bu5 tc ex (y_btb a)) fuA du1)
                                     i (ev_pc hev) bytes) ebus2)
          = (if m5_is_complete s' then m5_finish s' (cyc + dc) else m5run f app labels s' (cyc + dc)) /\
          m5_is_complete s' = sks5_complete a' /\ RMs5 (hla path') s' a' st' /\ sexecm app labels st' path' stf
    end.
  Proof.
    intros HW Hwp0 Hsi Hm8 Hread Hh Hi Hbytes Hem Hepr Hbu HS.
    pose proof HW as [(msl & HV & Hmem) Hregs Hri Hi2 Hlen _ Hsc _ Hgc]. cbn [cur_regs papply] in Hregs, Hmem.
    destruct (sexecm_head app labels _ _ _ _ HS) as [Hev _].
    pose proof (ev_of_at app st (ev_pc hev) i Hi) as Hevi. rewrite <- Hev in Hevi.
    assert (Hla : ev_la hev = load_addrs (sinstr_of i) (rget (regs st))) by (rewrite Hevi; reflexivity).
    assert (Hsa : ev_sa hev = store_addrs (sinstr_of i) (rget (regs st))) by (rewrite Hevi; reflexivity).
    pose proof (exec_cases_m app labels Happ Hlab st rg (ev_pc hev) i (mk_bu false 0) Hh Hi Hri Hsi Hm8 Hread) as Hcases.
    cbv zeta in Hcases. rewrite <- Hla, <- Hbytes in Hcases.
    assert (Hl : length msl = length (mem st)) by (rewrite Hmem, papply_length; reflexivity).
    unfold sks5_exec. rewrite Z.eqb_refl. cbn [negb].
    inversion HS as [? pc0 ? Hs Hp|? pc0 st' pc' rest' ? Hs Hsl1 Hsl2 HS' Hp]; subst.
    - (* the run halts here: ret *)
      cbn [ev_pc ev_of fst] in Hcases. rewrite Hs in Hcases. destruct Hcases as (-> & Hret & Hl0 & Hrun). rewrite Hret.
      rewrite Hl0 in Hrun |- *. cbn [map] in Hrun |- *.
      rewrite eu5_run_ret by exact Hrun. rewrite Hwp0.
      destruct (sks_wu (y_pw a) (y_wu a) None (y_wc a)) as [[[pw2 w2] swp2] swc2] eqn:Ew.
      destruct (sks_drain drain_fuel pw2 w2 swp2 swc2 0 false) as [[w3 c3]|] eqn:Edr; [|exact I].
      cbn [eu5_post set_eu m5_tail v_regs v_mem v_pw v_l1d v_eu v_wbus v_bu v_fu v_du eo_ret eo_flush].
      destruct (wu_step _ _ _ _ _ _ _ _ _ _ _ _ _ _ _ HW Hsi Ew) as (rg' & m1 & wp' & wc' & Ewu & HW' & _). rewrite Ewu.
      pose proof (sks_drain_shift _ _ _ _ _ _ _ _ _ (cyc + 1) Edr) as Edr'. rewrite Z.add_0_l in Edr'.
      destruct (drain_sim _ _ _ _ _ _ _ _ _ _ _ _ _ _ _ _ HW' Hsi Edr') as (rg3 & m3 & pw3 & Ed & HW3).
      unfold drain_fuel in Ed. rewrite Ed.
      destruct (wr_empty_mem _ _ _ _ _ HW3) as [Hregs3 HV3].
      unfold m5_finish. cbn [t_l1d t_mem t_regs]. rewrite (flush_ok _ _ _ _ HV3).
      assert (Hc0 : c3 = 0).
      { clear - Edr. revert Edr. generalize drain_fuel pw2 w2 swp2 swc2.
        induction n as [|n IH]; intros pw w wp wc0; cbn [sks_drain]; [discriminate|].
        destruct (negb (wu_pending w) && negb (is_full wp) && negb (is_full wc0)); [intros H; injection H as _ <-; reflexivity|].
        destruct (sks_wu pw w wp wc0) as [[[? ?] ?] ?]. apply IH. }
      rewrite Hc0, <- Hregs3. destruct st as [r0 m0]; cbn [Seq.regs Seq.mem]. rewrite Z.add_0_l. reflexivity.
    - (* an instruction with a successor *)
      set (hev := ev_of app st pc0) in *. set (nxt := ev_of app st' pc') in *.
      cbn [ev_pc ev_of fst] in Hcases. fold hev in Hcases.
      change (ev_pc hev) with pc0 in *. rewrite Hs in Hcases.
      destruct Hcases as (Hret & Hin & e & Hrun & Hsi' & Hm8' & Hcase). rewrite Hret.
      assert (Hnext : 0 <= pc') by (destruct (sexecm_head app labels _ _ _ _ HS') as [_ Hx]; exact Hx).
      change (ev_pc nxt) with pc'.
      destruct Hcase as [(Hns & Hsa0 & Hr & Hm & Hit & Hrel & Hregs' & Hmem' & Hfl & Hnpc & Hpcl)
                        | (bs & -> & Hl0 & Hne & Hfst & Hinb & Hregs' & Hmem' & ->)].
      + (* not a store *)
        rewrite Hsa, Hsa0. cbv zeta.
        destruct (eu5_run_reg_b labels rg m' (y_pw a) d' e2 (mk_sbus None wc) tc ex (y_btb a) fuA du1 i pc0 _ (embed e) Hrun Hr Hm)
          as (tc' & Erun).
        rewrite Erun. clear Erun.
        specialize (Hfl Hnext).
        assert (Hdec : (uncond i = true -> NextPc (embed e) = pc') /\
                       fl5 tc ex (embed e) = sk5_flush (y_btb a) i pc0 pc' /\
                       (sk5_flush (y_btb a) i pc0 pc' = true -> NextPc (embed e) = pc')).
        { destruct (PcChange (embed e)) eqn:Epc.
          - destruct (Hbu (Hpcl eq_refl)) as (tc0 & ex0 & -> & ->).
            exact (flush5_agree (y_btb a) tc0 ex0 i pc0 pc' (embed e) Hfl Hnpc).
          - assert (Hsf : sk_flush i pc0 pc' = false) by (rewrite <- Hfl; unfold flush_dec; rewrite Epc; reflexivity).
            unfold sk_flush in Hsf. apply orb_false_elim in Hsf as [Hu Hn]. fold (uncond i) in Hu.
            split; [rewrite Hu; discriminate|].
            unfold fl5, sk5_flush. rewrite Epc, Hu, Hn. split; [reflexivity | discriminate]. }
        destruct Hdec as (Hunc & Hfl5 & Hnpc5). rewrite Hfl5.
        assert (Hfu_eq : (if uncond i then fu5_reset fuA (NextPc (embed e)) else fuA)
                         = (if uncond i then fu5_reset fuA pc' else fuA)).
        { destruct (uncond i); [rewrite (Hunc eq_refl)|]; reflexivity. }
        assert (Hbtb_eq : (if uncond i then btb_add (y_btb a) pc0 (NextPc (embed e)) else y_btb a)
                          = (if uncond i then btb_add (y_btb a) pc0 pc' else y_btb a)).
        { destruct (uncond i); [rewrite (Hunc eq_refl)|]; reflexivity. }
        rewrite Hfu_eq, Hbtb_eq.
        set (wr := instr_WriteRegisters i) in *.
        set (fuR := if uncond i then fu5_reset fuA pc' else fuA).
        set (duR := if uncond i then false else du1).
        set (btb' := if uncond i then btb_add (y_btb a) pc0 pc' else y_btb a).
        assert (HW1 : WR d' sc' st' rg m' (Some (embed e, wr)) wc (Some (wr, [], nnil (y_l1 a))) (y_wc a)).
        { destruct Hit as [Hit1 Hit2]. cbn [fst snd] in Hit1, Hit2.
          constructor.
          - exists msl. split; [exact HV|]. rewrite Hmem', Hmem. cbn [papply]. rewrite Hit1. reflexivity.
          - rewrite Hregs', Hregs. reflexivity.
          - exact Hri.
          - exact Hi2.
          - exact Hlen.
          - unfold shape, wshape, wi_wr, wi_sa. cbn [option_map fst snd]. rewrite Hit1. reflexivity.
          - exact Hsc.
          - intros x Hx. injection Hx as <-. split; [exact Hrel|]. cbn [fst snd]. split; [intros _; exact Hit2 | rewrite Hit1; discriminate].
          - intros x Hx. rewrite Hmem'. apply Hgc. exact Hx. }
        unfold sks5_next.
        destruct (sks_wu (pw_add (y_pw a) wr) (y_wu a) (Some (wr, [], nnil (y_l1 a))) (y_wc a)) as [[[pw2 w2] swp2] swc2] eqn:Ew.
        cbn [y_pw y_wu y_wp y_wc y_l1 y_l2].
        cbn [eu5_post set_eu v_regs v_mem v_pw v_l1d v_eu v_wbus v_bu v_fu v_du]. rewrite sbus_add_mk.
        destruct (sk5_flush (y_btb a) i pc0 pc') eqn:Esf.
        * (* the pipeline is flushed: the write unit drains *)
          destruct (sks_drain drain_fuel pw2 w2 swp2 swc2 1 true) as [[w3 c3]|] eqn:Edr; [|exact I].
          unfold m5_tail, set_eu. cbn [v_regs v_mem v_pw v_l1d v_eu v_wbus v_bu v_fu v_du eo_ret eo_flush eo_pc].
          destruct (wu_step _ _ _ _ _ _ _ _ _ _ _ _ _ _ _ HW1 Hsi' Ew) as (rg' & m1 & wp' & wc' & Ewu & HW' & _).
          unfold wb_item in *. rewrite Ewu.
          pose proof (sks_drain_shift _ _ _ _ _ _ _ _ _ cyc Edr) as Edr'. replace (1 + cyc) with (cyc + 1) in Edr' by lia.
          destruct (drain_sim _ _ _ _ _ _ _ _ _ _ _ _ _ _ _ _ HW' Hsi' Edr') as (rg3 & m3 & pw3 & Ed & HW3).
          unfold drain_fuel in Ed. unfold wb_item in *. rewrite Ed. rewrite (Hnpc5 eq_refl).
          eexists _, st'. split; [|split; [|split; [|exact HS']]].
          -- replace (c3 + cyc) with (cyc + c3) by lia. symmetry. apply if_false_r. reflexivity.
          -- reflexivity.
          -- cbn [hla]. fold nxt.
             apply (RMs5_intro (ev_la nxt)
                      (mk_sks5 (mk_fu5 pc' (f5_remaining fuR) false false (f5_clean fuR)) false l1i1 sbus_empty sbus_empty
                               (eu_flushed (eu_done e2)) zero_pw None None w3 (s_rec sc') btb' [] (nnil (y_l1 a)))
                      rg3 m3 d' sc' tc' ex None None (eu_flushed (eu_done e2)) st'); auto; try discriminate;
               try solve [intros b Hb; cbn in Hb; rewrite Hem in Hb; discriminate];
               try solve [intros Hp; cbn in Hp; rewrite Hepr in Hp; discriminate].
             apply eu_erase_id. cbn. exact Hem.
        * destruct (tail_step5 f cyc (ev_la nxt) st' rg m' (pw_add (y_pw a) wr) d' sc' (eu_done e2) (Some (embed e, wr)) wc
                               tc' ex btb' fuR duR l1i1 dbus2 ebus2 (y_wu a) _ _ pw2 w2 swp2 swc2 (eu_done e2) [] (nnil (y_l1 a))
                               HW1 Hsi' Hm8') as (s' & Et & Hc & HR'); auto.
          -- apply eu_erase_id. exact Hem.
          -- intros b Hb. cbn in Hb. rewrite Hem in Hb. discriminate.
          -- intros Hp. cbn in Hp. rewrite Hepr in Hp. discriminate.
          -- intros Hp. cbn in Hp. rewrite Hepr in Hp. discriminate.
          -- exists s', st'. split; [exact Et|]. split; [exact Hc|]. split; [exact HR' | exact HS'].
      + (* a store *)
        rewrite Hsa in Hsl2 |- *. rewrite <- Hfst in Hsl2 |- *.
        assert (Hcs : map fst bs = consec (hd 0 (map fst bs)) (length bs)).
        { rewrite <- (map_length fst bs). rewrite Hfst.
          apply (store_addrs_consec _ _ (mem st)); [rewrite <- Hfst; exact Hinb|].
          pose proof (v_small _ _ _ _ HV) as Hs0. unfold zlen in *. rewrite <- Hl. exact Hs0. }
        destruct (pc_next app Happ pc0 i ltac:(lia) Hi) as [Hpc4 _]. rewrite Hpc4, Z.eqb_refl. cbn [negb].
        assert (Hbytes0 : map (mget (mem st)) (ev_la hev) = []) by (rewrite Hl0; reflexivity).
        rewrite Hbytes0 in Hrun |- *.
        assert (Hinl : forallb (in_mem msl) (map fst bs) = true) by (rewrite (forallb_in_mem_len _ (mem st) _ Hl); exact Hinb).
        assert (Hwr0 : instr_WriteRegisters i = []).
        { apply (store_wr_nil i (rget (regs st))). rewrite <- Hfst. destruct bs; [congruence | discriminate]. }
        assert (Hun : uncond i = false).
        { apply (store_addrs_not_uncond i (rget (regs st))). rewrite <- Hfst. destruct bs; [congruence | discriminate]. }
        destruct (map fst bs) as [|s0 sa'] eqn:Emf; [destruct bs; [congruence | discriminate]|].
        destruct (snd (a_get_all (s_rec sc') (s0 :: sa'))) eqn:Ehit.
        * (* it hits in the L1D *)
          rewrite <- Emf in Hcs, Hsl2, Hinl, Ehit.
          destruct (store_hit_m d' sc' m' msl bs _ HV Hne Hcs Hinl Hsl2 Ehit)
            as (c1 & vs & v0 & t & c' & sc3 & Eg & Es & Ew & HV3 & Hr3).
          rewrite (eu5_run_store_hit _ _ _ _ _ _ _ _ _ _ _ _ _ _ _ _ _ _ _ Hrun Eg Es Ew).
          assert (Hdis : forall x0, wc = Some x0 -> MemoryChange (fst x0) = true ->
                           forall a0, In a0 (map fst bs) -> ~ In a0 (map fst (MemoryChanges (fst x0)))).
          { intros x0 Hx0 Hmc a0 Ha0 Hin0. destruct (Hgc x0 Hx0) as (_ & _ & H3). destruct (H3 Hmc) as (_ & _ & _ & _ & Hvn).
            specialize (Hvn a0 Hin0).
            assert (Hall : forallb (fun a1 => is_some (view sc' a1)) (map fst bs) = true).
            { destruct (get_all_ok sc' (map fst bs) d' sc' [] (v_D _ _ _ _ HV) ltac:(auto)) as (? & ? & _ & _ & _ & _ & Hhh). rewrite Hhh. exact Ehit. }
            rewrite forallb_forall in Hall. specialize (Hall a0 Ha0). rewrite Hvn in Hall. discriminate. }
          assert (HW1 : WR c' sc3 st' rg m' None wc None (y_wc a)).
          { constructor.
            - exists (mset_all msl bs). split; [exact HV3|]. rewrite Hmem', Hmem. cbn [papply].
              destruct wc as [[exe wr]|]; cbn [papply]; [|reflexivity].
              destruct (MemoryChange exe) eqn:Emc; [|reflexivity].
              destruct (Hgc _ eq_refl) as (_ & _ & H3). cbn [fst] in H3. destruct (H3 Emc) as (_ & _ & Hinc & _).
              apply mset_all_swap; auto.
              + rewrite (forallb_in_mem_len _ (mem st) _ Hl). exact Hinc.
              + intros a0 Ha0. apply (Hdis _ eq_refl Emc a0 Ha0).
            - rewrite Hregs'. exact Hregs.
            - exact Hri.
            - exact Hi2.
            - exact Hlen.
            - reflexivity.
            - exact Hsc.
            - intros x Hx. discriminate.
            - intros x Hx. apply (item_good_len sc3 (mem st)); [rewrite Hmem', mset_all_length; reflexivity|].
              apply (item_good_sc d' sc' c' sc3 _ x (v_D _ _ _ _ HV) (v_D _ _ _ _ HV3)); [|apply Hgc; exact Hx].
              intros a0 _ _ Hv0. apply (view_none_sub d' sc' c' sc3 a0 (v_D _ _ _ _ HV) (v_D _ _ _ _ HV3) Hv0).
              intros b Hb. left. rewrite Hr3 in Hb. apply a_get_all_in in Hb. exact Hb. }
          unfold sks5_next. rewrite Hwp0.
          destruct (sks_wu (y_pw a) (y_wu a) None (y_wc a)) as [[[pw2 w2] swp2] swc2] eqn:Ewu.
          cbn [eu5_post set_eu v_regs v_mem v_pw v_l1d v_eu v_wbus v_bu v_fu v_du].
          destruct (tail_step5 f cyc (ev_la nxt) st' rg m' (y_pw a) c' sc3 (eu_done e2) None wc
                               tc ex (y_btb a) fuA du1 l1i1 dbus2 ebus2 (y_wu a) _ _ pw2 w2 swp2 swc2 (eu_done e2) (y_l1 a) (y_l2 a)
                               HW1 Hsi' Hm8') as (s' & Et & Hc & HR'); auto.
          -- apply eu_erase_id. exact Hem.
          -- intros b Hb. cbn in Hb. rewrite Hem in Hb. discriminate.
          -- intros Hp. cbn in Hp. rewrite Hepr in Hp. discriminate.
          -- intros Hp. cbn in Hp. rewrite Hepr in Hp. discriminate.
          -- rewrite Hr3, Emf in Hc, HR'. exists s', st'. split; [exact Et|]. split; [exact Hc|]. split; [exact HR' | exact HS'].
        * (* it misses: the store is put on the write bus *)
          rewrite <- Emf in Hsl2.
          assert (Hinl' : forallb (in_mem msl) (s0 :: sa') = true) by exact Hinl.
          assert (Hsl' : same_line (s0 :: sa') = true) by (rewrite <- Emf; exact Hsl2).
          destruct (load_issue_ok d' sc' m' msl s0 sa' HV Hinl' Hsl') as (c1 & sc1 & Eg & HV1 & Hr1 & Hu).
          rewrite Ehit in Eg. specialize (Hu Ehit). rewrite <- Emf in Eg.
          rewrite (eu5_run_store_miss _ _ _ _ _ _ _ _ _ _ _ _ _ _ Hrun Hun Eg). rewrite Hwr0.
          assert (HW1 : WR c1 sc1 st' rg m' (Some (embed (EStore bs), [])) wc (Some ([], s0 :: sa', nnil (y_l1 a))) (y_wc a)).
          { constructor.
            - exists msl. split; [exact HV1|]. rewrite Hmem', Hmem. reflexivity.
            - rewrite Hregs', Hregs. reflexivity.
            - exact Hri.
            - exact Hi2.
            - exact Hlen.
            - unfold shape, wshape, wi_wr, wi_sa. cbn [option_map fst snd embed MemoryChange MemoryChanges]. rewrite Emf. reflexivity.
            - exact Hsc.
            - intros x Hx. injection Hx as <-. split; [intros Hc; discriminate Hc|]. cbn [fst snd embed MemoryChange MemoryChanges RegisterChange].
              split; [discriminate|]. intros _. split; [reflexivity|]. split; [exact Hne|].
              split; [rewrite Emf, Hmem', (forallb_in_mem_len _ (mem st)); [exact Hinb | apply mset_all_length]|].
              split; [exact Hsl2|]. rewrite Emf. exact Hu.
            - intros x Hx. apply (item_good_len sc1 (mem st)); [rewrite Hmem', mset_all_length; reflexivity|].
              apply (item_good_sc d' sc' c1 sc1 _ x (v_D _ _ _ _ HV) (v_D _ _ _ _ HV1)); [|apply Hgc; exact Hx].
              intros a0 _ _ Hv0. apply (view_none_sub d' sc' c1 sc1 a0 (v_D _ _ _ _ HV) (v_D _ _ _ _ HV1) Hv0).
              intros b Hb. left. rewrite Hr1 in Hb. apply a_get_all_in in Hb. exact Hb. }
          unfold sks5_next.
          change (pw_add (y_pw a) []) with (y_pw a).
          destruct (sks_wu (y_pw a) (y_wu a) (Some ([], s0 :: sa', nnil (y_l1 a))) (y_wc a)) as [[[pw2 w2] swp2] swc2] eqn:Ewu.
          cbn [eu5_post set_eu v_regs v_mem v_pw v_l1d v_eu v_wbus v_bu v_fu v_du]. rewrite sbus_add_mk.
          destruct (tail_step5 f cyc (ev_la nxt) st' rg m' (y_pw a) c1 sc1 (eu_done e2) (Some (embed (EStore bs), [])) wc
                               tc ex (y_btb a) fuA du1 l1i1 dbus2 ebus2 (y_wu a) _ _ pw2 w2 swp2 swc2 (eu_done e2) (s0 :: sa') (nnil (y_l1 a))
                               HW1 Hsi' Hm8') as (s' & Et & Hc & HR'); auto.
          -- apply eu_erase_id. exact Hem.
          -- intros b Hb. cbn in Hb. rewrite Hem in Hb. discriminate.
          -- intros Hp. cbn in Hp. rewrite Hepr in Hp. discriminate.
          -- intros Hp. cbn in Hp. rewrite Hepr in Hp. discriminate.
          -- rewrite Hr1 in Hc, HR'. exists s', st'. split; [exact Et|]. split; [exact Hc|]. split; [exact HR' | exact HS'].
  Qed.

  Lemma sim_pre_s5 f a hev rest cyc s st stf :
    RMs5 (ev_la hev) s a st -> FS5 app hev a -> ns_inv5 a (hev :: rest) -> sexecm app labels st (hev :: rest) stf ->
    match sks5_pre app a (hev :: rest) with
    | YStuck => True
    | YFin dc dt => m5run (S f) app labels s cyc = MDone (cyc + dc + MemoryAccess * zlen dt) stf
    | YStep a' path' dc =>
        exists s' st',
          m5run (S f) app labels s cyc
          = (if m5_is_complete s' then m5_finish s' (cyc + dc) else m5run f app labels s' (cyc + dc)) /\
          m5_is_complete s' = sks5_complete a' /\ RMs5 (hla path') s' a' st' /\ sexecm app labels st' path' stf
    end.
  Proof.
    intros HR HF Hns HS.
    destruct HR as [a rg m l1d sc tc ex wp wc ce st HW Hdt Hsi Hm8 Hce Hbytes Hunc Hrd].
    pose proof HF as [[HF5 Hok _ Hmiss _] Hpr HI2 HWI]. cbn [pz n_eu] in Hok, Hmiss.
    pose proof (g_head _ _ _ HF5) as Hh.
    rewrite m5run_S. cbn [t_fu t_du t_l1i t_dbus t_ebus t_regs t_mem t_pw t_l1d t_eu t_wbus t_bu t_wu].
    destruct (fu5_cycle app (y_fu a) (y_l1i a) (y_dbus a)) as [[[fu1 l1i1] dbus1]| |] eqn:Ef;
      [|unfold sks5_pre; rewrite Ef; exact I|unfold sks5_pre; rewrite Ef; exact I].
    destruct (du5_cycle app (y_du a) dbus1 (y_ebus a)) as [[[du1 dbus2] ebus1]| |] eqn:Ed;
      [|unfold sks5_pre; rewrite Ef, Ed; exact I|unfold sks5_pre; rewrite Ef, Ed; exact I].
    destruct (sks_eu (is_full (y_wp a)) (y_eu a) ebus1 (y_pw a) (y_dt a) (ev_la hev)) as [[[e1 ebus2] dt1] act] eqn:Ee.
    destruct (fronts_flow5 app Happ hev a _ _ _ _ _ _ _ _ _ _ HF Ef Ed Ee)
      as (_ & _ & Hnst & Hmid & Hok1 & Hmiss1 & Hex & _ & _ & Hfull & Hwait).
    pose proof HW as [(msl & HV & Hmem) Hregs Hri Hi2 Hlen Hsp Hsc Hgp Hgc].
    assert (Hl : length msl = length (mem st)) by (rewrite Hmem, !papply_length; reflexivity).
    pose proof (sexecm_head app labels _ _ _ _ HS) as [Hev Hpc0].
    destruct (eu_pending_read ce) eqn:Epr.
    - (* a load is in flight *)
      assert (Hprs : eu_pending_read (y_eu a) = true) by (rewrite <- Hce; exact Epr).
      pose proof (Hpr Hprs) as Hwp0.
      assert (Hwpn : wp = None) by (rewrite Hwp0 in Hsp; apply omap_none in Hsp; exact Hsp). subst wp.
      cbn [cur_regs papply] in Hregs, Hmem.
      destruct (Hmiss Hprs) as [Hlane Haddrs].
      destruct (sexecm_loads app labels _ _ _ _ HS Hlane) as [Hin Hsl].
      assert (Hiss : issue_s (is_full (y_wp a)) (y_eu a) ebus1 = None).
      { unfold issue_s, issue_m. rewrite Hprs, andb_false_r. reflexivity. }
      assert (Ee' : skm_eu (eu_erase ce) ebus1 (y_pw a) (y_dt a) (ev_la hev) = (e1, ebus2, dt1, act)).
      { rewrite Hce. unfold sks_eu in Ee. rewrite Hprs, andb_false_r in Ee. exact Ee. }
      pose proof (eu5_cycle_m_pending labels rg m (y_pw a) l1d ce (mk_sbus None wc) (mk_bu5 tc ex (y_btb a)) fu1 du1
                    ebus1 (y_dt a) (ev_la hev) e1 ebus2 dt1 act Epr Ee') as Heu.
      destruct act as [|i pc|]; [| |congruence].
      + (* still waiting *)
        destruct Heu as (Eeu & He1 & Hd1 & Heb). subst e1 dt1 ebus2. rewrite Eeu.
        rewrite (sks5_pre_none app a hev rest _ _ _ _ _ _ _ _ _ Ef Ed Ee). rewrite Hiss. cbn [sk5_assert]. unfold sks5_next.
        destruct (sks_wu (y_pw a) (y_wu a) (y_wp a) (y_wc a)) as [[[pw2 w2] swp2] swc2] eqn:Ew.
        rewrite Hwp0 in HW.
        destruct (tail_step5 f cyc (ev_la hev) st rg m (y_pw a) l1d sc (wait_eu ce) None wc tc ex (y_btb a) fu1 du1 l1i1 dbus2 ebus1 (y_wu a)
                             None (y_wc a) pw2 w2 swp2 swc2 (eu_erase (wait_eu ce)) (y_l1 a) (y_l2 a) HW Hsi Hm8 eq_refl)
          as (s' & Et & Hc & HR').
        * intros b Hb. apply Hbytes. exact Hb.
        * intros _ Hn. apply (Hunc eq_refl Hn).
        * intros _. split; [reflexivity|]. intros i pc Hrun r Hinr. apply (proj2 (Hrd eq_refl) i pc Hrun r Hinr).
        * rewrite <- Hwp0. exact Ew.
        * rewrite Hdt in Hc, HR'. exists s', st. split; [exact Et|]. split; [exact Hc|]. split; [exact HR' | exact HS].
      + (* the load completes and the instruction is executed *)
        destruct Heu as (Heb & He1 & Eeu). subst ebus2 e1. rewrite Eeu.
        destruct Hex as (_ & _ & Hdt1).
        cbn [act_q List.app] in Hmid.
        destruct (mid_head app _ _ _ _ _ _ Hmid) as [Hpc [_ Hi]]. cbn [fst snd] in Hpc, Hi. subst pc.
        rewrite (sks5_pre_exec_eq app a hev rest _ _ _ _ _ _ _ _ _ _ _ Ef Ed Ee). rewrite Hiss. cbn [sk5_assert].
        set (e2 := mk_eu (eu_processing ce) false (eu_addrs ce) None (eu_remaining ce - 1) (eu_runner ce)).
        rewrite Hwp0 in HW.
        assert (Hgot : exists d' sc' m', load_got l1d m ce = Ok (d', m', map (mget (mem st)) (ev_la hev)) /\
                         WR d' sc' st rg m' None wc None (y_wc a) /\ s_rec sc' = dt1).
        { unfold load_got. rewrite Hdt1. unfold dtal. rewrite Hprs.
          assert (Hme : eu_memory (y_eu a) = option_map (fun _ => []) (eu_memory ce)) by (rewrite <- Hce; reflexivity).
          rewrite Hme. destruct (eu_memory ce) as [bytes|] eqn:Em.
          - exists l1d, sc, m. rewrite (Hbytes bytes eq_refl). cbn [option_map]. auto.
          - cbn [option_map].
            assert (Ha : eu_addrs ce = ev_la hev) by (rewrite <- Haddrs; [rewrite <- Hce; reflexivity | rewrite Hme; reflexivity]).
            rewrite Ha. destruct (ev_la hev) as [|a0 t] eqn:Ela; [congruence|].
            assert (Hin' : forallb (in_mem msl) (a0 :: t) = true) by (rewrite (forallb_in_mem_len _ (mem st) _ Hl); exact Hin).
            destruct (load_complete_ok l1d sc m msl a0 t HV Hin' Hsl (Hunc eq_refl eq_refl)) as (c3 & sc3 & m3 & E3 & HV3 & Hr3).
            assert (HI2' : forall y, y_wc a = Some y -> same_line_as (wi_sa y) (a0 :: t) = false).
            { intros y Hy. apply (HI2 Hprs); [rewrite Hme; reflexivity | exact Hy]. }
            exists c3, sc3, m3. split.
            { rewrite E3. do 2 f_equal. apply map_mget_ext. intros x Hx. rewrite Hmem. symmetry.
              apply (inflight_other sc (mem st) wc (y_wc a) (a0 :: t) msl Hsc Hgc Hl Hsl HI2' x Hx).
              rewrite forallb_forall in Hin. specialize (Hin x Hx). apply in_mem_range in Hin. lia. }
            split; [|rewrite Hr3, Hdt; reflexivity].
            constructor.
            + exists msl. auto.
            + exact Hregs.
            + exact Hri.
            + exact Hi2.
            + exact Hlen.
            + reflexivity.
            + exact Hsc.
            + intros x Hx. discriminate.
            + intros x Hx.
              apply (item_good_sc l1d sc c3 sc3 _ x (v_D _ _ _ _ HV) (v_D _ _ _ _ HV3)); [|apply Hgc; exact Hx].
              intros a1 Emc Hina Hv1. apply (view_none_sub l1d sc c3 sc3 a1 (v_D _ _ _ _ HV) (v_D _ _ _ _ HV3) Hv1).
              intros b Hb. rewrite Hr3 in Hb. apply a_get_all_in in Hb. apply a_fill_in in Hb. destruct Hb as [->|Hb]; [right | left; exact Hb].
              apply covers_other_line.
              destruct (y_wc a) as [y|] eqn:Exc; [|subst wc; discriminate]. subst wc. cbn [option_map] in Hsc.
              destruct (Hgc x eq_refl) as (_ & _ & H3). destruct (H3 Emc) as (_ & _ & _ & Hsls & _).
              pose proof (shape_sa x y Hsc) as Hsay. rewrite Emc in Hsay. rewrite <- Hsay in Hsls, Hina.
              apply (line_disjoint (wi_sa y) (a0 :: t) a1 a0 Hsls Hsl (HI2' y eq_refl) Hina). left; reflexivity. }
        destruct Hgot as (d' & sc' & m' & -> & HW' & Hdt').
        rewrite <- Hdt'.
        replace (eu_done (mk_eu (eu_processing (eu_erase ce)) false (eu_addrs (eu_erase ce)) None (eu_remaining (eu_erase ce) - 1) (eu_runner (eu_erase ce))))
          with (eu_done e2) by reflexivity.
        apply (sim_exec_s5 f a hev rest st stf fu1 du1 l1i1 dbus2 ebus1 cyc rg m' d' sc' e2 wc tc ex i _ HW' Hwp0 Hsi Hm8);
          auto; try discriminate.
        * assert (Hrun : eu_runner ce = Some (i, ev_pc hev)).
          { unfold skm_eu in Ee'. cbn [eu_erase eu_pending_read eu_remaining eu_runner] in Ee'. rewrite Epr in Ee'.
            destruct (negb (eu_remaining ce - 1 =? 0)); [discriminate|].
            destruct (eu_runner ce) as [[i0 pc0]|]; [|discriminate].
            assert (Ha : AExec i0 pc0 = AExec i (ev_pc hev)) by congruence. injection Ha as -> ->. reflexivity. }
          exact (proj2 (Hrd eq_refl) i (ev_pc hev) Hrun).
        * intros H0. congruence.
    - (* no load in flight *)
      assert (Hprs : eu_pending_read (y_eu a) = false) by (rewrite <- Hce; exact Epr).
      destruct Hok as (_ & _ & Hmem0).
      assert (Hmc : eu_memory ce = None) by (apply erase_mem_none; rewrite Hce; apply Hmem0; exact Hprs).
      assert (Hcee : y_eu a = ce) by (rewrite <- Hce; apply eu_erase_id; exact Hmc).
      pose proof (omap_full _ _ _ _ Hsp) as Hfw.
      destruct (is_full (y_wp a)) eqn:Efl.
      + (* the write bus is full: the execute unit stalls, the branch unit is not consulted *)
        assert (Ee0 : sks_eu (is_full (y_wp a)) (y_eu a) ebus1 (y_pw a) (y_dt a) (ev_la hev) = (e1, ebus2, dt1, act))
          by (rewrite Efl; exact Ee).
        assert (Hiss : issue_s (is_full (y_wp a)) (y_eu a) ebus1 = None).
        { unfold issue_s. rewrite Efl, Hprs. reflexivity. }
        destruct wp as [xw|]; [|discriminate].
        rewrite Hcee in Ee.
        destruct (eu5_cycle_s_full labels rg m (y_pw a) l1d ce (mk_sbus (Some xw) wc) (mk_bu5 tc ex (y_btb a)) fu1 du1 ebus1 (y_dt a) (ev_la hev)
                    e1 ebus2 dt1 act Epr Hmc eq_refl Ee) as (Hact & Hd1 & Eeu & Hp1 & Hm1). subst act dt1.
        rewrite Eeu. rewrite (sks5_pre_none app a hev rest _ _ _ _ _ _ _ _ _ Ef Ed Ee0). rewrite Hiss. cbn [sk5_assert]. unfold sks5_next.
        destruct (sks_wu (y_pw a) (y_wu a) (y_wp a) (y_wc a)) as [[[pw2 w2] swp2] swc2] eqn:Ew.
        destruct (tail_step5 f cyc (ev_la hev) st rg m (y_pw a) l1d sc e1 (Some xw) wc tc ex (y_btb a) fu1 du1 l1i1 dbus2 ebus2 (y_wu a)
                             (y_wp a) (y_wc a) pw2 w2 swp2 swc2 e1 (y_l1 a) (y_l2 a) HW Hsi Hm8) as (s' & Et & Hc & HR').
        * apply eu_erase_id. exact Hm1.
        * intros b Hb. rewrite Hm1 in Hb. discriminate.
        * intros Hp. rewrite Hp1 in Hp. discriminate.
        * intros Hp. rewrite Hp1 in Hp. discriminate.
        * exact Ew.
        * rewrite Hdt in Hc, HR'. exists s', st. split; [exact Et|]. split; [exact Hc|]. split; [exact HR' | exact HS].
      + assert (Ee0 : sks_eu (is_full (y_wp a)) (y_eu a) ebus1 (y_pw a) (y_dt a) (ev_la hev) = (e1, ebus2, dt1, act))
          by (rewrite Efl; exact Ee).
        assert (Hiss : issue_s (is_full (y_wp a)) (y_eu a) ebus1 = issue_m ce ebus1).
        { unfold issue_s. rewrite Efl, Hcee. reflexivity. }
        assert (Hwp0 : y_wp a = None) by (destruct (y_wp a); [discriminate Efl | reflexivity]).
        destruct wp as [xw|]; [discriminate|].
        cbn [cur_regs papply] in Hregs, Hmem.
        unfold sks_eu in Ee. cbn [andb] in Ee. rewrite Hcee in Ee.
        rewrite Hwp0 in HW.
        assert (Hpw : y_pw a = pwof (cur_wr wc)).
        { rewrite (w_pw _ _ _ _ _ _ HWI), Hwp0, (shape_wr wc (y_wc a) Hsc). reflexivity. }
        assert (Hrelc : forall x, wc = Some x -> wb_rel (fst x) (snd x)) by (intros x Hx; apply (Hgc x Hx)).
        assert (Hmr : forall i pc, hd_error (q_eu ce ++ q_sb ebus1) = Some (i, pc) ->
                  pw_hazard (y_pw a) (instr_ReadRegisters i) = false -> instr_MemoryRead i (rget rg) 0 = ev_la hev).
        { intros i pc Hhd Hhz. rewrite <- Hcee in Hhd.
          destruct (head_entry_s5 app Happ hev a _ _ _ _ _ _ i pc HF Ef Ed Hhd) as [-> Hi].
          rewrite memory_read_exact.
          pose proof (reads_agree_s (y_pw a) rg wc st i Hlen Hpw Hrelc Hregs Hhz) as Hread.
          rewrite read_registers_exact in Hread.
          destruct (spec_reads_sound (sinstr_of i) (rget (regs st)) (rget rg) labels 0 [] Hread) as (_ & Hla & _).
          rewrite <- Hla. rewrite Hev, (ev_of_at app st (ev_pc hev) i Hi). reflexivity. }
        assert (Hga : exists d1 sc1, ev_la hev <> [] ->
                  get_all l1d (ev_la hev) [] = Ok (d1, if snd (a_get_all (y_dt a) (ev_la hev)) then Some (map (mget msl) (ev_la hev)) else None) /\
                  VInv d1 sc1 m msl /\ s_rec sc1 = fst (a_get_all (y_dt a) (ev_la hev)) /\
                  (snd (a_get_all (y_dt a) (ev_la hev)) = false -> forall x, In x (ev_la hev) -> view sc1 x = None) /\
                  (snd (a_get_all (y_dt a) (ev_la hev)) = true -> forall x, In x (ev_la hev) -> view sc x <> None) /\
                  same_line (ev_la hev) = true /\ forallb (in_mem (mem st)) (ev_la hev) = true).
        { destruct (ev_la hev) as [|a0 t] eqn:Ela.
          - exists l1d, sc. intros H0. congruence.
          - destruct (sexecm_loads app labels _ _ _ _ HS ltac:(rewrite Ela; discriminate)) as [Hin Hsl]. rewrite Ela in Hin, Hsl.
            assert (Hin' : forallb (in_mem msl) (a0 :: t) = true) by (rewrite (forallb_in_mem_len _ (mem st) _ Hl); exact Hin).
            destruct (load_issue_ok l1d sc m msl a0 t HV Hin' Hsl) as (c1 & sc1 & Eg & HV1 & Hr1 & Hu).
            rewrite Hdt in Eg, Hr1, Hu. exists c1, sc1. intros _. split; [exact Eg|]. split; [exact HV1|]. split; [exact Hr1|].
            split; [exact Hu|]. split; [|auto]. intros Ehit x Hx.
            destruct (get_all_ok sc (a0 :: t) l1d sc [] (v_D _ _ _ _ HV) ltac:(auto)) as (? & ? & _ & _ & _ & _ & Hhh).
            rewrite Hdt, Ehit in Hhh. rewrite forallb_forall in Hhh. specialize (Hhh x Hx). destruct (view sc x); [discriminate | discriminate]. }
        destruct Hga as (d1 & sc1 & Hga).
        pose proof (eu5_cycle_m_idle labels rg m (y_pw a) l1d ce (mk_sbus None wc) tc ex (y_btb a) fu1 du1 ebus1 (y_dt a) (ev_la hev) d1
                      (map (mget msl) (ev_la hev)) e1 ebus2 dt1 act Epr Hmc eq_refl Hmr (fun H0 => proj1 (Hga H0)) Ee) as Heu.
        destruct act as [|i pc|]; [| |congruence].
        * (* nothing executed *)
          destruct Heu as (tc' & ex' & ce1 & l1d' & Eeu & Her & Hcase). rewrite Eeu.
          rewrite (sks5_pre_none app a hev rest _ _ _ _ _ _ _ _ _ Ef Ed Ee0). rewrite Hiss. unfold sks5_next.
          destruct (sks_wu (y_pw a) (y_wu a) (y_wp a) (y_wc a)) as [[[pw2 w2] swp2] swc2] eqn:Ew.
          rewrite Hwp0 in Ew.
          destruct Hcase as [(-> & -> & Hp1 & Hm1) | (Hlane & -> & -> & Hp1 & Hm1)].
          -- destruct (tail_step5 f cyc (ev_la hev) st rg m (y_pw a) l1d sc ce1 None wc tc' ex' (y_btb a)
                                  (sk5_assert fu1 (y_btb a) (issue_m ce ebus1)) du1 l1i1 dbus2 ebus2 (y_wu a)
                                  None (y_wc a) pw2 w2 swp2 swc2 e1 (y_l1 a) (y_l2 a) HW Hsi Hm8 Her) as (s' & Et & Hc & HR').
             ++ intros b Hb. rewrite Hm1, Hmc in Hb. discriminate.
             ++ intros Hp. rewrite Hp1 in Hp. discriminate.
             ++ intros Hp. rewrite Hp1 in Hp. discriminate.
             ++ exact Ew.
             ++ rewrite Hdt in Hc, HR'. exists s', st. split; [exact Et|]. split; [exact Hc|]. split; [exact HR' | exact HS].
          -- destruct (Hga Hlane) as (_ & HV1 & Hr1 & Hu1 & Hhit & Hsl & Hin).
             assert (HW1 : WR d1 sc1 st rg m None wc None (y_wc a)).
             { constructor.
               - exists msl. auto.
               - exact Hregs.
               - exact Hri.
               - exact Hi2.
               - exact Hlen.
               - reflexivity.
               - exact Hsc.
               - intros x Hx. discriminate.
               - intros x Hx.
                 apply (item_good_sc l1d sc d1 sc1 _ x (v_D _ _ _ _ HV) (v_D _ _ _ _ HV1)); [|apply Hgc; exact Hx].
                 intros a1 _ _ Hv1. apply (view_none_sub l1d sc d1 sc1 a1 (v_D _ _ _ _ HV) (v_D _ _ _ _ HV1) Hv1).
                 intros b Hb. left. rewrite Hr1, <- Hdt in Hb. apply a_get_all_in in Hb. exact Hb. }
             destruct (tail_step5 f cyc (ev_la hev) st rg m (y_pw a) d1 sc1 ce1 None wc tc' ex' (y_btb a)
                                  (sk5_assert fu1 (y_btb a) (issue_m ce ebus1)) du1 l1i1 dbus2 ebus2 (y_wu a)
                                  None (y_wc a) pw2 w2 swp2 swc2 e1 (y_l1 a) (y_l2 a) HW1 Hsi Hm8 Her) as (s' & Et & Hc & HR').
             ++ intros b Hb. rewrite Hm1 in Hb. destruct (snd (a_get_all (y_dt a) (ev_la hev))) eqn:Ehit; [|rewrite Hmc in Hb; discriminate].
                injection Hb as <-. apply map_mget_ext. intros x Hx. rewrite Hmem.
                assert (Hx0 : 0 <= x) by (rewrite forallb_forall in Hin; specialize (Hin x Hx); apply in_mem_range in Hin; lia).
                destruct wc as [xw|]; [|reflexivity]. symmetry.
                apply (mget_papply sc (mem st) xw msl x (Hgc _ eq_refl) Hl Hx0).
                intros Hm Hin0. destruct (Hgc xw eq_refl) as (_ & _ & H3). destruct (H3 Hm) as (_ & _ & _ & _ & Hvn).
                apply (Hhit eq_refl x Hx). apply Hvn. exact Hin0.
             ++ intros _ Hn. rewrite Hm1 in Hn. destruct (snd (a_get_all (y_dt a) (ev_la hev))); [discriminate|]. apply Hu1. reflexivity.
             ++ intros _. split; [reflexivity|]. intros i pc Hrun r Hinr.
                assert (Hp1' : eu_pending_read e1 = true) by (rewrite <- Her; exact Hp1).
                destruct (skm_eu_issue ce ebus1 (y_pw a) (y_dt a) (ev_la hev) e1 ebus2 _ Epr Ee Hp1') as (i' & pc' & Hr' & _ & Hhz).
                rewrite <- Her in Hr'. cbn [eu_erase eu_runner] in Hr'. rewrite Hrun in Hr'. injection Hr' as <- <-.
                apply (reads_agree_s (y_pw a) rg wc st i Hlen Hpw Hrelc Hregs Hhz r Hinr).
             ++ exact Ew.
             ++ rewrite Hr1 in Hc, HR'. exists s', st. split; [exact Et|]. split; [exact Hc|]. split; [exact HR' | exact HS].
        * (* (i, pc) is executed directly: it does not load *)
          destruct Heu as (Hla0 & -> & e2 & -> & Hhz & Hhd & Hissm & Eeu). rewrite Eeu. rewrite bu5_assert_eq.
          rewrite <- Hcee in Hhd. destruct (head_entry_s5 app Happ hev a _ _ _ _ _ _ i pc HF Ef Ed Hhd) as [-> Hi].
          rewrite (sks5_pre_exec_eq app a hev rest _ _ _ _ _ _ _ _ _ _ _ Ef Ed Ee0). rewrite Hiss, Hissm.
          destruct Hex as (_ & Hpe & _). rewrite <- Hdt.
          destruct Hok1 as (_ & _ & Hm2). specialize (Hm2 Hpe).
          apply (sim_exec_s5 f a hev rest st stf _ du1 l1i1 dbus2 ebus2 cyc rg m l1d sc e2 wc _ _ i []
                   HW Hwp0 Hsi Hm8); auto.
          -- apply (reads_agree_s (y_pw a) rg wc st i Hlen Hpw Hrelc Hregs Hhz).
          -- rewrite Hla0. reflexivity.
          -- intros _. exists tc, ex. split; reflexivity.
  Qed.

  Lemma sim_step_s5 f a hev rest cyc s st stf :
    RMs5 (ev_la hev) s a st -> FS5 app hev a -> evs_wf app (hev :: rest) -> stores_plain app (hev :: rest) ->
    ns_inv5 a (hev :: rest) -> sexecm app labels st (hev :: rest) stf ->
    match sks5_cycle app a (hev :: rest) with
    | YStuck => True
    | YFin dc dt => m5run (S f) app labels s cyc = MDone (cyc + dc + MemoryAccess * zlen dt) stf
    | YStep a' path' dc =>
        exists s' st', m5run (S f) app labels s cyc = m5run f app labels s' (cyc + dc) /\
                       RMs5 (hla path') s' a' st' /\ sexecm app labels st' path' stf
    end.
  Proof.
    intros HR HF Hwf Hsp Hns HS. pose proof (sim_pre_s5 f a hev rest cyc s st stf HR HF Hns HS) as Hpre.
    unfold sks5_cycle. destruct (sks5_pre app a (hev :: rest)) as [a2 p dc|dc dt|] eqn:Ep; [|exact Hpre|exact I].
    destruct Hpre as (s' & st' & E & Hc & HR' & HS').
    destruct (fs5_step app Happ hev rest a a2 p dc HF Hwf Hsp Hns Ep) as (hev' & rest' & -> & HF' & Hwf' & _).
    rewrite E, Hc. destruct (sks5_complete a2) eqn:Ec.
    - apply (finish_s5 _ _ _ _ hev' rest' _ _ HR' HF' Ec Hwf' HS').
    - eexists _, st'. split; [reflexivity|]. split; assumption.
  Qed.

  Lemma sim_run_s5 : forall fuel a hev rest cyc s st stf c,
    RMs5 (ev_la hev) s a st -> FS5 app hev a -> evs_wf app (hev :: rest) -> stores_plain app (hev :: rest) ->
    ns_inv5 a (hev :: rest) -> sexecm app labels st (hev :: rest) stf ->
    sks5_run fuel app a (hev :: rest) cyc = Some c ->
    m5run fuel app labels s cyc = MDone c stf.
  Proof.
    induction fuel as [|f IH]; intros a hev rest cyc s st stf c HR HF Hwf Hsp Hns HS H; [discriminate|].
    cbn [sks5_run] in H.
    pose proof (sim_step_s5 f a hev rest cyc s st stf HR HF Hwf Hsp Hns HS) as Hsim.
    destruct (sks5_cycle app a (hev :: rest)) as [a' path' dc|dc dt|] eqn:Ec; [| |discriminate].
    - destruct Hsim as (s' & st1 & -> & HR' & HS').
      assert (Epre : sks5_pre app a (hev :: rest) = YStep a' path' dc).
      { unfold sks5_cycle in Ec. destruct (sks5_pre app a (hev :: rest)) as [a2 p d|d t|]; try discriminate.
        destruct (sks5_complete a2); [discriminate | exact Ec]. }
      destruct (fs5_step app Happ hev rest a a' path' dc HF Hwf Hsp Hns Epre) as (hev' & rest' & -> & HF' & Hwf' & Hsp' & Hns' & _).
      eapply IH; eassumption.
    - injection H as <-. exact Hsim.
  Qed.
End SimS5.
