(* Refinement of MVP-6.3 to the sequential machine on single-assignment, register-only,
   straight-line programs - part 4: the register alias tables at the two ends of Run.

   init_rat_read   ctx.InitRAT(): committedRAT reads the initial register file, whatever the order in
                   which Go iterates ctx.Registers;
   finish3_ok      RATCommit ; RATFlush when everything dispatched has been written back: ctx.Registers
                   becomes the sequential register file, whatever the order of the two iterations. *)
From Coq Require Import ZArith List Bool Lia Permutation.
From Maj Require Import Base.Outcome Base.GoInt Base.GoTypes Isa.Spec Isa.Embed Isa.Seq Isa.Refine.
From Maj Require Import Gen.Latency Gen.RiscTables Gen.Opcodes Comp.Cache Comp.Rat Comp.RatProofs.
From Maj Require Import Mvp.Mvp12 Mvp.Mvp12Proofs Mvp.Mvp3 Mvp.Mvp3Proofs Mvp.Mvp4Skel Mvp.Mvp4Inv Mvp.Mvp5 Mvp.Mvp60
     Mvp.Mvp60RefSem Mvp.Mvp60RefDefs Mvp.Mvp60RefFront Mvp.Mvp60RefBack Mvp.Mvp60RefStep Mvp.Mvp63 Mvp.Mvp63RefDefs Mvp.Mvp63RefInv.
Import ListNotations.
Open Scope Z_scope.

Lemma fold_left_ext_in {A B} (f g : A -> B -> A) l : (forall a b, In b l -> f a b = g a b) -> forall a, fold_left f l a = fold_left g l a.
Proof.
  induction l as [|b t IH]; intros H a; cbn [fold_left]; [reflexivity|].
  rewrite (H a b (or_introl eq_refl)). apply IH. intros a' b' Hb. apply H. right. exact Hb.
Qed.

Lemma aget_map_keys {A} (g : Z -> A) keys r : aget r (map (fun k => (k, g k)) keys) = if memZ r keys then Some (g r) else None.
Proof.
  induction keys as [|k t IH]; cbn [map aget memZ existsb]; [reflexivity|]. fold (memZ r t).
  destruct (Z.eqb_spec r k) as [->|]; cbn [orb]; [reflexivity | exact IH].
Qed.

Lemma memZ_regkeys n r : memZ r (map Z.of_nat (seq 0 n)) = (0 <=? r) && (r <? Z.of_nat n).
Proof.
  destruct (memZ r (map Z.of_nat (seq 0 n))) eqn:E.
  - apply memZ_In in E. apply in_map_iff in E as (k & <- & Hk). apply in_seq in Hk. symmetry. apply andb_true_iff. split; [apply Z.leb_le | apply Z.ltb_lt]; lia.
  - destruct (Z.leb_spec 0 r), (Z.ltb_spec r (Z.of_nat n)); try reflexivity. exfalso.
    assert (Hin : In r (map Z.of_nat (seq 0 n))) by (apply in_map_iff; exists (Z.to_nat r); split; [lia | apply in_seq; lia]).
    apply memZ_In in Hin. congruence.
Qed.

Lemma rat_read_new {V} (zero : V) len k : rat_read zero (rat_new len) k = None.
Proof. reflexivity. Qed.

(* ctx.InitRAT() *)
Lemma init_rat_read ord regs : rat_ok (init_rat3 ord regs) /\
  forall r, rat_read 0 (init_rat3 ord regs) r = if (0 <=? r) && (r <? Z.of_nat (length regs)) then Some (nth (Z.to_nat r) regs 0) else None.
Proof.
  unfold init_rat3. set (keys := map Z.of_nat (seq 0 (length regs))). set (order := map_order ord 0 (-2) keys).
  set (vals := map (fun k => (k, nth (Z.to_nat k) regs 0)) keys).
  assert (E : fold_left (fun c k => rat_write 0 c k (nth (Z.to_nat k) regs 0)) order (rat_new ratLength)
              = wfold 0 (fun v : Z => v) vals order (rat_new ratLength)).
  { unfold wfold. apply fold_left_ext_in. intros c k Hk. unfold vals. rewrite aget_map_keys.
    assert (Hm : memZ k keys = true) by (apply memZ_In; unfold order, map_order in Hk; apply iter_order_In in Hk; exact Hk).
    rewrite Hm. reflexivity. }
  rewrite E. destruct (fold_rat_write_read 0 (fun v : Z => v) vals order (rat_new ratLength) (rat_new_ok ratLength ltac:(unfold ratLength; lia))) as [Hok Hrd].
  split; [exact Hok|]. intros r. rewrite Hrd. unfold order, map_order. rewrite memZ_iter_order. unfold vals. rewrite aget_map_keys.
  unfold keys. rewrite memZ_regkeys. destruct ((0 <=? r) && (r <? Z.of_nat (length regs))); reflexivity.
Qed.

(* for k, v := range vals { regs[k] = v } *)
Lemma flush_fold (vals : list (Z * Z)) : (forall k v, aget k vals = Some v -> 0 <= k) -> forall order rs s, (s < length rs)%nat ->
  nth s (fold_left (fun rs k => match aget k vals with Some v => Seq.upd rs (Z.to_nat k) v | None => rs end) order rs) 0
  = if memZ (Z.of_nat s) order then match aget (Z.of_nat s) vals with Some v => v | None => nth s rs 0 end else nth s rs 0.
Proof.
  intros Hnn. induction order as [|k t IH]; intros rs s Hs; cbn [fold_left]; [reflexivity|].
  set (rs' := match aget k vals with Some v => Seq.upd rs (Z.to_nat k) v | None => rs end).
  assert (Hl : length rs' = length rs) by (unfold rs'; destruct (aget k vals); [apply supd_length | reflexivity]).
  rewrite IH by (rewrite Hl; exact Hs). unfold memZ. cbn [existsb]. fold (memZ (Z.of_nat s) t).
  destruct (Z.eqb_spec (Z.of_nat s) k) as [<-|Hne]; cbn [orb].
  - unfold rs'. destruct (aget (Z.of_nat s) vals) as [v|] eqn:Ea.
    + rewrite Nat2Z.id, supd_nth_eq by exact Hs. destruct (memZ (Z.of_nat s) t); reflexivity.
    + destruct (memZ (Z.of_nat s) t); reflexivity.
  - assert (Hn : nth s rs' 0 = nth s rs 0).
    { unfold rs'. destruct (aget k vals) as [v|] eqn:Ea; [|reflexivity]. apply supd_nth_neq. specialize (Hnn k v Ea). lia. }
    rewrite Hn. reflexivity.
Qed.

Lemma flush_fold_length (vals : list (Z * Z)) : forall order rs,
  length (fold_left (fun rs k => match aget k vals with Some v => Seq.upd rs (Z.to_nat k) v | None => rs end) order rs) = length rs.
Proof.
  induction order as [|k t IH]; intros rs; cbn [fold_left]; [reflexivity|]. rewrite IH. destruct (aget k vals); [apply supd_length | reflexivity].
Qed.

Section Fin.
  Variables (app : list instr) (labels : Z -> option Z) (regs0 mem0 : list Z) (ord : Z -> Z -> list Z -> list Z).
  Hypothesis Hssa : ssa app = true.
  Hypothesis Hrng : regs_ok app = true.
  Hypothesis Hlen0 : length regs0 = 32%nat.
  Hypothesis Hx0 : nth 0 regs0 0 = 0.

  Notation sreg := (sreg app labels regs0 0).
  Notation tv := (tv app labels regs0).
  Notation view := (view app labels regs0).
  Notation BI := (BI app labels regs0 mem0).

  (* slot 0 of the sequential register file is never written *)
  Lemma sreg_zero k : nth 0 (sreg k) 0 = nth 0 regs0 0.
  Proof.
    assert (Hl : (length regs0 <= 32)%nat) by lia.
    rewrite <- (sreg_base app labels regs0 0 Hl 0 (le_n 0)) at 2. apply sreg_stable; [exact Hl | lia|].
    intros j _ Hin. unfold Mvp60RefSem.wsl in Hin. apply slots_in in Hin as (r & Hr & Hnz & Hz).
    pose proof (wrs_rng app Hrng j r Hr). lia.
  Qed.

  Lemma view_sreg_all w s : (s < 32)%nat -> view w (Z.of_nat s) = nth s (sreg w) 0.
  Proof.
    intros Hs. destruct s as [|s].
    - change (Z.of_nat 0) with 0. rewrite (view_zero app labels regs0 w Hx0), sreg_zero. symmetry. exact Hx0.
    - rewrite (view_sreg app labels regs0 Hrng Hlen0 w (Z.of_nat (S s)) ltac:(lia)), Nat2Z.id. reflexivity.
  Qed.

  (* RATCommit ; RATFlush: the two tables together show view w *)
  Lemma commit_flush dp d xe w pl pv x cy : BI dp d xe w pl pv x ->
    rat_flush3 ord cy (rat_commit3 ord cy x) = sreg w.
  Proof.
    intros HB. pose proof (bi_cok _ _ _ _ _ _ _ _ _ _ _ HB) as Hcok. pose proof (bi_crat _ _ _ _ _ _ _ _ _ _ _ HB) as Hcr.
    pose proof (bi_trat _ _ _ _ _ _ _ _ _ _ _ HB) as Htr. pose proof (bi_regs _ _ _ _ _ _ _ _ _ _ _ HB) as Hregs.
    unfold rat_flush3, rat_commit3. cbn [x_crat x_m set_rats3].
    set (tvals := rat_values tu0 (x_trat x)).
    assert (Ecv : commit_vals ord cy (x_crat x) tvals = wfold 0 (fun tu : Z * Z => snd tu) tvals (map_order ord cy (-1) (akeys tvals)) (x_crat x)) by reflexivity.
    rewrite Ecv. destruct (fold_rat_write_read 0 (fun tu : Z * Z => snd tu) tvals (map_order ord cy (-1) (akeys tvals)) (x_crat x) Hcok) as [Hok' Hrd'].
    set (crat' := wfold 0 (fun tu : Z * Z => snd tu) tvals (map_order ord cy (-1) (akeys tvals)) (x_crat x)) in *.
    (* what committedRAT reads after the commit *)
    assert (Hread : forall r, rat_read 0 crat' r = if (0 <=? r) && (r <? 32) then Some (view w r) else None).
    { intros r. rewrite Hrd'. unfold map_order. rewrite memZ_iter_order, memZ_akeys. unfold tvals. rewrite aget_rat_values, Htr, Hcr.
      unfold Mvp63RefDefs.view. destruct (tv w r) as [sv|] eqn:Et.
      - assert (Hr : 0 <= r < 32) by (apply (tv_rng app labels regs0 Hrng Hlen0 w r); rewrite Et; discriminate).
        destruct (Z.leb_spec 0 r), (Z.ltb_spec r 32); try lia. reflexivity.
      - destruct ((0 <=? r) && (r <? 32)); reflexivity. }
    set (cvals := rat_values 0 crat').
    assert (Haget : forall k, aget k cvals = if (0 <=? k) && (k <? 32) then Some (view w k) else None).
    { intros k. unfold cvals. rewrite aget_rat_values. apply Hread. }
    apply (nth_ext _ _ 0 0).
    - rewrite flush_fold_length, Hregs, sreg_length. reflexivity.
    - intros s Hs. rewrite flush_fold_length, Hregs, Hlen0 in Hs.
      rewrite flush_fold.
      + unfold map_order. rewrite memZ_iter_order, memZ_akeys, Haget.
        destruct (Z.leb_spec 0 (Z.of_nat s)), (Z.ltb_spec (Z.of_nat s) 32); try lia. cbn [andb]. apply view_sreg_all. exact Hs.
      + intros k v Hk. rewrite Haget in Hk. destruct (Z.leb_spec 0 k); [exact H | discriminate].
      + rewrite Hregs, Hlen0. exact Hs.
  Qed.

  (* cycle += mmu.flush(); RATCommit(); RATFlush(); return *)
  Lemma finish3_ok dp d xe w pl pv x cy : BI dp d xe w pl pv x ->
    finish3 ord x cy = MDone cy (mk_arch (sreg w) mem0).
  Proof.
    intros HB. unfold finish3. rewrite (bi_l3 _ _ _ _ _ _ _ _ _ _ _ HB). cbn [flush_lines]. rewrite Z.add_0_r.
    rewrite (commit_flush _ _ _ _ _ _ _ _ HB), (bi_mem _ _ _ _ _ _ _ _ _ _ _ HB). reflexivity.
  Qed.
End Fin.
