(* Refinement of MVP-6.3 to the sequential machine on single-assignment register-only programs with FORWARD control
   flow - part 2: the control unit on the generalised back-end invariant BIq of Mvp63RefFwdDefs.v (a port of the
   control-unit half of Mvp63RefInv.v: base, sequence id, branches; handleRunner with pushedBranchInCurrentCycle and
   pendingConditionalBranch). *)
From Coq Require Import ZArith List Bool Lia Permutation.
From Maj Require Import Base.Outcome Base.GoInt Base.GoTypes Isa.Spec Isa.Embed Isa.Seq Isa.Refine.
From Maj Require Import Gen.Latency Gen.RiscTables Gen.Opcodes Comp.Cache Comp.Rat Comp.RatProofs.
From Maj Require Import Mvp.Mvp12 Mvp.Mvp12Proofs Mvp.Mvp3 Mvp.Mvp3Proofs Mvp.Mvp4Skel Mvp.Mvp4Inv Mvp.Mvp5 Mvp.Mvp60
     Mvp.Mvp60RefSem Mvp.Mvp60RefDefs Mvp.Mvp60RefFront Mvp.Mvp60RefBack Mvp.Mvp60RefStep Mvp.Mvp63 Mvp.Mvp63RefDefs Mvp.Mvp63RefInv
     Mvp.Mvp63RefExec Mvp.Mvp63RefFwdDefs Mvp.Mvp63RefFwdFront.
From Maj Require Comp.Scoreboard.
Import ListNotations.
Open Scope Z_scope.

Ltac dBI H := destruct H as [bq_ord0 bq_dn0 bq_xeN0 bq_ret0 bq_exec0 bq_ebus0 bq_wbus0 bq_pwlen0 bq_prlen0 bq_pw0 bq_pr0 bq_tab0 bq_fwd0
  bq_seq0 bq_pcb0 bq_chan0 bq_idnd0 bq_idlt0 bq_read0 bq_recv0 bq_fwder0 bq_rnd0 bq_rlt0 bq_pendr0 bq_pend10 bq_pendf0 bq_prev0 bq_prevnd0
  bq_regs0 bq_mem0 bq_l30 bq_os0 bq_fnd0].

Section RefQ.
  Variables (app : list instr) (labels : Z -> option Z) (regs0 mem0 : list Z) (base : nat) (sq : Z) (ord : Z -> Z -> list Z -> list Z).
  Hypothesis Happ : wf_app app.
  Hypothesis Hreg : reg_only app = true.
  Hypothesis Hssa : ssa app = true.
  Hypothesis Hrng : regs_ok app = true.
  Hypothesis Hlen0 : length regs0 = 32%nat.
  Hypothesis Hbase : (base <= length app)%nat.
  Hypothesis Hsq : 0 <= sq /\ 1000 * sq + 4 * Z.of_nat (length app) + 4 < 2147483648.
  Let n := length app.
  Let N := stop_from app base.

  Notation sreg := (sreg app labels regs0 base).
  Notation eff := (eff app labels regs0 base).
  Notation rnq := (rnq app sq).
  Notation ik := (ik app).
  Notation wsl := (wsl app).
  Notation rsl := (rsl app).
  Notation wbq := (wbq app labels regs0 base sq).
  Notation exeb := (exeb app labels regs0 base).
  Notation rds := (rds app).
  Notation wrs := (wrs app).
  Notation kout := (kout app labels regs0 base).
  Notation BIq := (BIq app labels regs0 mem0 base sq).
  Notation RecvOKq := (RecvOKq app labels regs0 base).
  Notation ReadOK := (ReadOK app).
  Notation TabOK := (TabOK app labels regs0 base sq).

  Hypothesis Hsem : forall k, (base <= k <= N)%nat -> (k < n)%nat ->
    exec (sinstr_of (ik k)) (rget (sreg k)) labels (pcz k) [] = Ok (eff k) /\
    (forall a, etarget (eff k) = Some a -> exists t, a = pcz t /\ (k < t <= n)%nat).

  Lemma Hlen0' : (length regs0 <= 32)%nat. Proof. lia. Qed.

  Notation bq_ord := (bq_ord app labels regs0 mem0 base sq).
  Notation bq_dn := (bq_dn app labels regs0 mem0 base sq).
  Notation bq_xeN := (bq_xeN app labels regs0 mem0 base sq).
  Notation bq_ret := (bq_ret app labels regs0 mem0 base sq).
  Notation bq_exec := (bq_exec app labels regs0 mem0 base sq).
  Notation bq_ebus := (bq_ebus app labels regs0 mem0 base sq).
  Notation bq_wbus := (bq_wbus app labels regs0 mem0 base sq).
  Notation bq_pw := (bq_pw app labels regs0 mem0 base sq).
  Notation bq_pr := (bq_pr app labels regs0 mem0 base sq).
  Notation bq_tab := (bq_tab app labels regs0 mem0 base sq).
  Notation bq_pcb := (bq_pcb app labels regs0 mem0 base sq).
  Notation bq_prev := (bq_prev app labels regs0 mem0 base sq).
  Notation bq_pend1 := (bq_pend1 app labels regs0 mem0 base sq).
  Notation bq_os := (bq_os app labels regs0 mem0 base sq).

  Lemma kr_rnq k : kr (rnq k) = k.
  Proof. unfold kr, Mvp63RefFwdDefs.rnq. cbn [r_pc]. rewrite pcz_div. apply Nat2Z.id. Qed.

  Lemma kq_rn r k : q_r r = rnq k -> kq r = k.
  Proof. intros H. unfold kq. rewrite H. apply kr_rnq. Qed.

  (* the invariant depends on these components only *)
  Lemma BI_ext dp d xe w pl pv x x' :
    flat (x_ebus x') = flat (x_ebus x) -> flat (m_wbus (x_m x')) = flat (m_wbus (x_m x)) ->
    m_pw (x_m x') = m_pw (x_m x) -> m_pr (x_m x') = m_pr (x_m x) ->
    x_crat x' = x_crat x -> x_trat x' = x_trat x -> x_fwd x' = x_fwd x -> x_seq x' = x_seq x -> x_pcb x' = x_pcb x ->
    x_chan x' = x_chan x -> x_next x' = x_next x ->
    m_regs (x_m x') = m_regs (x_m x) -> m_mem (x_m x') = m_mem (x_m x) -> m_l3 (x_m x') = m_l3 (x_m x) -> x_os x' = x_os x ->
    BIq dp d xe w pl pv x -> BIq dp d xe w pl pv x'.
  Proof.
    intros E1 E2 E3 E4 E5 E6 E7 E8 E9 E10 E11 E14 E15 E16 E17 H. destruct H.
    constructor; rewrite ?E1, ?E2, ?E3, ?E4, ?E5, ?E6, ?E7, ?E8, ?E9, ?E10, ?E11, ?E14, ?E15, ?E16, ?E17; assumption.
  Qed.

  (* ---------------------------------------------------------------- *)
  (* facts about the instructions of the text                          *)

  Lemma N_le : (N <= n)%nat. Proof. apply stop_from_le. exact Hbase. Qed.
  Lemma base_N : (base <= N)%nat. Proof. apply stop_from_ge. Qed.

  (* before N neither a ret nor an unconditional jump *)
  Lemma before_N k : (base <= k < N)%nat -> is_ret (ik k) = false /\ is_jump (ik k) = false.
  Proof.
    intros Hk. pose proof (stop_from_before app dfl base k Hk) as Hs. unfold is_stop in Hs.
    apply orb_false_iff in Hs. exact Hs.
  Qed.

  Lemma is_ret_N k : (base <= k <= N)%nat -> is_ret (ik k) = true -> k = N.
  Proof.
    intros H1 Hr. destruct (Nat.eq_dec k N) as [|Hne]; [assumption|]. exfalso.
    destruct (before_N k ltac:(lia)) as [A _]. congruence.
  Qed.

  Lemma is_jump_N k : (base <= k <= N)%nat -> is_jump (ik k) = true -> k = N.
  Proof.
    intros H1 Hr. destruct (Nat.eq_dec k N) as [|Hne]; [assumption|]. exfalso.
    destruct (before_N k ltac:(lia)) as [_ A]. congruence.
  Qed.

  (* an instruction before N that writes a register is not a branch: conditional branches write nothing,
     jal stands at N only *)
  Lemma writer_nobranch k r : (base <= k < N)%nat -> In r (wrs k) ->
    InstructionType_IsBranch (instr_InstructionType (ik k)) = false.
  Proof.
    intros Hk Hr. destruct (before_N k Hk) as [_ Hj]. unfold is_jump in Hj.
    unfold InstructionType_IsBranch. rewrite Hj. cbn [orb].
    destruct (InstructionType_IsConditionalBranch (instr_InstructionType (ik k))) eqn:Ec; [|reflexivity].
    exfalso. unfold Mvp63RefDefs.wrs in Hr. destruct (ik k); try discriminate Ec; cbn in Hr; contradiction.
  Qed.


  (* ---------------------------------------------------------------- *)
  (* the hazards of the next instruction to dispatch                   *)

  Lemma cnt_seq_zero f a l s : cnt f (seq a l) s = 0 <-> (forall j, (a <= j < a + l)%nat -> ~ In s (f j)).
  Proof.
    rewrite cnt_zero. split; intros H j Hj; apply H; [apply in_seq; exact Hj | apply in_seq in Hj; exact Hj].
  Qed.

  Lemma hazards_spec dp d xe w pl pv x : BIq dp d xe w pl pv x -> (d < n)%nat ->
    hazards_of x (ik d) =
    flat_map (fun r => if negb (r =? 0) && (0 <? sb_get (m_pw (x_m x)) r) then [(0, r)] else []) (rds d).
  Proof.
    intros HB Hd. unfold hazards_of, Scoreboard.hazards3. cbn [Scoreboard.pw Scoreboard.pr].
    fold (rds d). fold (wrs d).
    rewrite (flat_map_nil_all _ (wrs d)); [apply app_nil_r|].
    intros r Hr. destruct (Z.eqb_spec r 0) as [|Hnz]; cbn [negb]; [reflexivity|].
    pose proof (wrs_rng app Hrng d r Hr) as Hrr. pose proof (bq_ord _ _ _ _ _ _ _ HB) as Ho.
    assert (Hs : (Z.to_nat r < 32)%nat) by lia.
    unfold sb_get. rewrite (bq_pw _ _ _ _ _ _ _ HB _ Hs), (bq_pr _ _ _ _ _ _ _ HB _ Hs).
    assert (A : cnt wsl (seq w (d - w)) (Z.to_nat r) = 0).
    { apply cnt_seq_zero. intros j Hj Hin. apply (wsl_in app Hrng j r ltac:(lia)) in Hin.
      exact (ssa_waw app Hssa j d r ltac:(fold n; lia) Hin Hnz Hr). }
    assert (B : cnt rsl (seq w (d - w)) (Z.to_nat r) = 0).
    { apply cnt_seq_zero. intros j Hj Hin. apply (rsl_in app Hrng j r ltac:(lia)) in Hin.
      exact (ssa_war app Hssa j d r ltac:(fold n; lia) Hin Hnz Hr). }
    rewrite A, B. reflexivity.
  Qed.

  (* a register with a clear write counter has no writer among w .. d-1 *)
  Lemma pw_zero_nowriter dp d xe w pl pv x r : BIq dp d xe w pl pv x -> 0 < r < 32 ->
    (0 <? sb_get (m_pw (x_m x)) r) = false -> forall j, (w <= j < d)%nat -> ~ In r (wrs j).
  Proof.
    intros HB Hr H j Hj Hin. unfold sb_get in H. rewrite (bq_pw _ _ _ _ _ _ _ HB) in H by lia.
    apply Z.ltb_ge in H. pose proof (cnt_nonneg wsl (seq w (d - w)) (Z.to_nat r)).
    assert (Hz : cnt wsl (seq w (d - w)) (Z.to_nat r) = 0) by lia.
    apply (proj1 (cnt_seq_zero _ _ _ _) Hz j ltac:(pose proof (bq_ord _ _ _ _ _ _ _ HB); lia)).
    apply (wsl_in app Hrng j r); [lia | exact Hin].
  Qed.

  Lemma pw_pos_writer dp d xe w pl pv x r : BIq dp d xe w pl pv x -> 0 < r < 32 ->
    (exists j, (w <= j < d)%nat /\ In r (wrs j)) -> (0 <? sb_get (m_pw (x_m x)) r) = true.
  Proof.
    intros HB Hr (j & Hj & Hin). unfold sb_get. rewrite (bq_pw _ _ _ _ _ _ _ HB) by lia. apply Z.ltb_lt.
    destruct (Z.eq_dec (cnt wsl (seq w (d - w)) (Z.to_nat r)) 0) as [Hz|Hnz].
    - exfalso. apply (proj1 (cnt_seq_zero _ _ _ _) Hz j ltac:(pose proof (bq_ord _ _ _ _ _ _ _ HB); lia)).
      apply (wsl_in app Hrng j r); [lia | exact Hin].
    - pose proof (cnt_nonneg wsl (seq w (d - w)) (Z.to_nat r)). lia.
  Qed.

  (* ---------------------------------------------------------------- *)
  (* small facts about entries                                          *)

  Lemma flat_mark (b : bbus runner3) id ch : flat (ebus_mark b id ch) = map (mark_fwder id ch) (flat b).
  Proof. unfold flat, ebus_mark. cbn [bb_q bb_buf]. rewrite map_app, !map_map. reflexivity. Qed.

  Lemma mark_qr id ch r : q_r (mark_fwder id ch r) = q_r r.
  Proof. unfold mark_fwder. destruct (q_id r =? id); reflexivity. Qed.
  Lemma mark_id id ch r : q_id (mark_fwder id ch r) = q_id r.
  Proof. unfold mark_fwder. destruct (q_id r =? id); reflexivity. Qed.
  Lemma mark_recv id ch r : q_recv (mark_fwder id ch r) = q_recv r.
  Proof. unfold mark_fwder. destruct (q_id r =? id); reflexivity. Qed.
  Lemma mark_freg id ch r : q_freg (mark_fwder id ch r) = q_freg r.
  Proof. unfold mark_fwder. destruct (q_id r =? id); reflexivity. Qed.
  Lemma mark_kq id ch r : kq (mark_fwder id ch r) = kq r.
  Proof. unfold kq. rewrite mark_qr. reflexivity. Qed.
  Lemma mark_other id ch r : q_id r <> id -> mark_fwder id ch r = r.
  Proof. intros H. unfold mark_fwder. destruct (Z.eqb_spec (q_id r) id); [contradiction | reflexivity]. Qed.
  Lemma mark_hit id ch r : q_id r = id -> q_fwder (mark_fwder id ch r) = Some ch.
  Proof. intros H. unfold mark_fwder. destruct (Z.eqb_spec (q_id r) id); [reflexivity | contradiction]. Qed.

  Lemma recvs_mark id ch l : recvs (map (mark_fwder id ch) l) = recvs l.
  Proof. unfold recvs. induction l as [|a t IH]; cbn [map flat_map]; [reflexivity|]. rewrite mark_recv, IH. reflexivity. Qed.

  Lemma fwds_mark_in id ch l c : In c (fwds (map (mark_fwder id ch) l)) -> c = ch \/ In c (fwds l).
  Proof.
    induction l as [|a t IH]; cbn [map]; [intros []|]. change (a :: t) with ([a] ++ t). change (mark_fwder id ch a :: map (mark_fwder id ch) t) with ([mark_fwder id ch a] ++ map (mark_fwder id ch) t).
    rewrite !fwds_app. intros H. apply in_app_or in H as [H|H].
    - unfold mark_fwder in H. destruct (q_id a =? id).
      + unfold fwds in H. cbn in H. destruct H as [<-|[]]. left. reflexivity.
      + right. apply in_or_app. left. exact H.
    - destruct (IH H) as [E|E]; [left; exact E | right; apply in_or_app; right; exact E].
  Qed.

  Lemma map_mark_other id ch l : (forall b, In b l -> q_id b <> id) -> map (mark_fwder id ch) l = l.
  Proof.
    induction l as [|b t IH]; intros H; cbn [map]; [reflexivity|].
    rewrite (mark_other _ _ _ (H b (or_introl eq_refl))), IH; [reflexivity|]. intros c Hc. apply H. right. exact Hc.
  Qed.

  Lemma fwds_mark_nodup id ch l : NoDup (fwds l) -> ~ In ch (fwds l) -> NoDup (map q_id l) ->
    (forall a, In a l -> q_id a = id -> q_fwder a = None) -> NoDup (fwds (map (mark_fwder id ch) l)).
  Proof.
    induction l as [|a t IH]; intros Hnd Hni Hids Hnone; cbn [map]; [constructor|].
    change (a :: t) with ([a] ++ t) in Hnd, Hni. change (mark_fwder id ch a :: map (mark_fwder id ch) t) with ([mark_fwder id ch a] ++ map (mark_fwder id ch) t).
    rewrite fwds_app in *. cbn [map] in Hids. inversion Hids as [|? ? Hida Hidt]; subst.
    assert (Hndt : NoDup (fwds t)) by (apply NoDup_app_right in Hnd; exact Hnd).
    assert (Hnit : ~ In ch (fwds t)) by (intros Hx; apply Hni; apply in_or_app; right; exact Hx).
    specialize (IH Hndt Hnit Hidt ltac:(intros b Hb; apply Hnone; right; exact Hb)).
    destruct (Z.eq_dec (q_id a) id) as [Eid|Nid].
    - assert (Hfa : q_fwder a = None) by (apply Hnone; [left; reflexivity | exact Eid]).
      rewrite (map_mark_other id ch t).
      2:{ intros b Hb E. apply Hida. rewrite Eid, <- E. apply in_map. exact Hb. }
      unfold fwds at 1. cbn [flat_map]. rewrite (mark_hit _ _ _ Eid). cbn [List.app]. constructor; assumption.
    - rewrite (mark_other _ _ _ Nid). unfold fwds at 1. cbn [flat_map]. rewrite app_nil_r.
      destruct (q_fwder a) as [c|] eqn:Ec; cbn [List.app]; [|exact IH]. constructor; [|exact IH].
      intros Hin. destruct (fwds_mark_in _ _ _ _ Hin) as [->|Hx].
      + apply Hni. apply in_or_app. left. unfold fwds. cbn [flat_map]. rewrite Ec. left. reflexivity.
      + unfold fwds at 1 in Hnd. cbn [flat_map] in Hnd. rewrite Ec in Hnd. cbn [List.app] in Hnd. inversion Hnd as [|? ? Hni' _]; subst. apply Hni'. exact Hx.
  Qed.

  Lemma recvs_snoc_eq l r r' : q_recv r' = q_recv r -> recvs (l ++ [r']) = recvs (l ++ [r]).
  Proof. intros H. rewrite !recvs_app. unfold recvs at 2 4. cbn [flat_map]. rewrite H. reflexivity. Qed.

  Lemma nodup_id_eq (l : list runner3) a b : NoDup (map q_id l) -> In a l -> In b l -> q_id a = q_id b -> a = b.
  Proof.
    induction l as [|c t IH]; intros Hnd Ha Hb E; [destruct Ha|]. cbn [map] in Hnd. inversion Hnd as [|? ? Hni Hnd']; subst.
    destruct Ha as [<-|Ha], Hb as [<-|Hb]; auto.
    - exfalso. apply Hni. rewrite E. apply in_map. exact Hb.
    - exfalso. apply Hni. rewrite <- E. apply in_map. exact Ha.
  Qed.

  Lemma map_rn_in (l : list runner3) a len e : map q_r l = map rnq (seq a len) -> In e l ->
    exists k, (a <= k < a + len)%nat /\ q_r e = rnq k /\ kq e = k.
  Proof.
    intros H Hin. assert (Hq : In (q_r e) (map rnq (seq a len))) by (rewrite <- H; apply in_map; exact Hin).
    apply in_map_iff in Hq as (k & Ek & Hk). apply in_seq in Hk. exists k. split; [exact Hk|]. split; [auto|]. apply kq_rn. auto.
  Qed.

  Lemma ebus_entry dp d xe w pl pv x e : BIq dp d xe w pl pv x -> In e (flat (x_ebus x)) ->
    exists k, (xe <= k < d)%nat /\ q_r e = rnq k /\ kq e = k.
  Proof.
    intros HB Hin. destruct (map_rn_in _ _ _ _ (bq_ebus _ _ _ _ _ _ _ HB) Hin) as (k & Hk & A & B).
    pose proof (bq_ord _ _ _ _ _ _ _ HB). exists k. split; [lia | auto].
  Qed.

  Lemma q_instr_rn r k : q_r r = rnq k -> q_instr r = ik k.
  Proof. intros H. unfold q_instr. rewrite H. reflexivity. Qed.

  Lemma filter_le1 {A} (f : A -> nat) (c : A -> bool) l : NoDup (map f l) ->
    (forall a b, In a l -> In b l -> c a = true -> c b = true -> f a = f b) -> (length (filter c l) <= 1)%nat.
  Proof.
    induction l as [|x t IH]; intros Hnd Hs; cbn [filter length]; [lia|]. cbn [map] in Hnd. inversion Hnd as [|? ? Hni Hnd']; subst.
    assert (IHt : (length (filter c t) <= 1)%nat) by (apply IH; [exact Hnd'|]; intros a b Ha Hb; apply Hs; right; assumption).
    destruct (c x) eqn:Ex; [|exact IHt]. cbn [length].
    destruct (filter c t) as [|y t'] eqn:Ef; [cbn; lia|]. exfalso.
    assert (Hy : In y (filter c t)) by (rewrite Ef; left; reflexivity). apply filter_In in Hy as [Hy Hcy].
    apply Hni. rewrite (Hs x y (or_introl eq_refl) (or_intror Hy) Ex Hcy). apply in_map. exact Hy.
  Qed.

  Lemma sequence_id_0 x k : x_seq x = 0 -> (k < n)%nat -> sequence_id x (pcz k) = pcz k.
  Proof.
    intros Hs Hk. unfold sequence_id. rewrite Hs. unfold mulS, addS. change (0 * 1000) with 0.
    rewrite (wrapS_id 32 0) by (apply int32_0). rewrite Z.add_0_r. apply wrapS_id; [lia|].
    apply int32_bounds. pose proof (n_small app Happ) as Hn. fold n in Hn. unfold pcz. lia.
  Qed.

  (* fwd_match: the register found is written by p and read by the reader *)
  Lemma fwd_match_spec reads p reg : fwd_match reads p = Some reg ->
    In reg reads /\ reg <> 0 /\ In reg (instr_WriteRegisters (q_instr p)).
  Proof.
    unfold fwd_match. intros H. apply Mvp63Proofs_first_some in H.
    destruct H as (wr & Hw & Hf). apply find_some in Hf as [Hin Hc]. apply andb_prop in Hc as [H1 H2].
    apply negb_true_iff, Z.eqb_neq in H1. apply Z.eqb_eq in H2. subst wr. auto.
  Qed.

  (* ---------------------------------------------------------------- *)
  (* pushing a runner, marking a forwarder                              *)

  Lemma RecvOKq_mono xe E E' chan r : (forall e, In e E -> In e E') -> RecvOKq xe E chan r -> RecvOKq xe E' chan r.
  Proof.
    intros Hi H ch Hc. destruct (H ch Hc) as (A & p & B & C & D). split; [exact A|]. exists p. split; [exact B|]. split; [exact C|].
    destruct D as [(D1 & rp & D2 & D3 & D4)|D]; [left | right; exact D]. split; [exact D1|]. exists rp. auto.
  Qed.

  Lemma BI_noprev dp d xe w pl pv x : BIq dp d xe w pl pv x -> BIq dp d xe w pl [] x.
  Proof. intros H. destruct H. constructor; auto. - intros p []. - constructor. Qed.

  Definition CurOK (d0 : nat) (x : mx) (cur : list runner3) : Prop :=
    forall c, In c cur -> In c (flat (x_ebus x)) /\ q_fwder c = None /\ (d0 <= kq c)%nat.

  Lemma BI_setprev dp d xe w pl pv x d0 cur : BIq dp d xe w pl pv x -> CurOK d0 x cur -> NoDup (map kq cur) ->
    BIq d0 d xe w pl cur x.
  Proof. intros H Hc Hn. destruct H. constructor; auto. Qed.

  Definition pushed (x : mx) (cy : Z) (r : runner3) : mx * runner3 :=
    let r' := mk_r3 (q_r r) (x_next x) (q_fwder r) (q_recv r) (q_freg r) in
    (set_next3 (set_m (set_ebus3 x (bb_add (x_ebus x) r' cy))
                      (add_pending6 (x_m x) (instr_ReadRegisters (q_instr r)) (instr_WriteRegisters (q_instr r))))
               (x_next x + 1), r').

  Lemma push_runner3_eq x cy r : bb_canadd (x_ebus x) = true -> push_runner3 x cy r = Some (pushed x cy r).
  Proof. intros H. unfold push_runner3, pushed. rewrite H. reflexivity. Qed.

  Lemma BI_push cy dp d xe w pv x r : BIq dp d xe w [r] pv x -> (d < n)%nat -> (d <= N)%nat ->
    ReadOK w r -> (is_ret (ik d) = true -> xe = d) ->
    BIq dp (S d) xe w [] pv (fst (pushed x cy r)) /\ kq (snd (pushed x cy r)) = d /\
    flat (x_ebus (fst (pushed x cy r))) = flat (x_ebus x) ++ [snd (pushed x cy r)].
  Proof.
    intros HB Hdn HdN HR Hret. pose proof HB as HBd; dBI HBd.
    assert (Hqr : q_r r = rnq d) by (cbn in bq_pendr0; injection bq_pendr0 as E; rewrite Nat.add_0_r in E || idtac; exact E).
    assert (Hkq : kq r = d) by (apply kq_rn; exact Hqr).
    set (r' := snd (pushed x cy r)). set (x2 := fst (pushed x cy r)).
    assert (Hr'q : q_r r' = rnq d) by exact Hqr.
    assert (Hkq' : kq r' = d) by (apply kq_rn; exact Hr'q).
    assert (Hfl : flat (x_ebus x2) = flat (x_ebus x) ++ [r']) by (unfold x2, pushed; cbn [fst x_ebus set_next3 set_m set_ebus3]; apply add_flat).
    split; [|split; [exact Hkq' | exact Hfl]].
    assert (Hinstr : q_instr r = ik d) by (apply q_instr_rn; exact Hqr).
    apply Forall_app in bq_recv0 as [Hrc1 Hrc2]. pose proof (Forall_inv Hrc2) as Hrcr. cbv beta in Hrcr.
    constructor; unfold x2, pushed; cbn [fst x_ebus x_m x_crat x_trat x_fwd x_seq x_pcb x_chan x_next x_os set_next3 set_m set_ebus3
                         add_pending6 set_sb m_pw m_pr m_regs m_mem m_l3 m_wbus];
      change (mk_r3 (q_r r) (x_next x) (q_fwder r) (q_recv r) (q_freg r)) with r'; rewrite ?add_flat; try assumption.
    - lia.
    - split; lia.
    - intros HN Hr. assert (Hd : d = N) by lia. rewrite Hd in Hret. specialize (Hret Hr). lia.
    - rewrite map_app, bq_ebus0. cbn [map]. rewrite Hr'q. replace (S d - xe)%nat with (S (d - xe)) by lia.
      rewrite seq_snoc, map_app. cbn [map]. repeat f_equal. lia.
    - rewrite sb_incr_length. exact bq_pwlen0.
    - rewrite sb_incr_length. exact bq_prlen0.
    - intros s Hs. rewrite sb_incr_nth by (rewrite bq_pwlen0; exact Hs). rewrite bq_pw0 by exact Hs.
      replace (S d - w)%nat with (S (d - w)) by lia. rewrite seq_snoc, cnt_app. cbn [cnt]. rewrite Hinstr.
      replace (w + (d - w))%nat with d by lia. unfold Mvp60RefSem.wsl. lia.
    - intros s Hs. rewrite sb_incr_nth by (rewrite bq_prlen0; exact Hs). rewrite bq_pr0 by exact Hs.
      replace (S d - w)%nat with (S (d - w)) by lia. rewrite seq_snoc, cnt_app. cbn [cnt]. rewrite Hinstr.
      replace (w + (d - w))%nat with d by lia. unfold Mvp60RefSem.rsl. lia.
    - intros Hp. destruct (bq_pcb0 Hp) as (rb & Hrb & Hcb). exists rb. split; [apply in_or_app; left; exact Hrb | exact Hcb].
    - eapply Forall_impl; [|exact bq_chan0]. cbn beta. intros a Ha. lia.
    - rewrite map_app. cbn [map]. apply NoDup_snoc; [exact bq_idnd0|]. cbn [q_id r' snd pushed].
      intros Hin. apply in_map_iff in Hin as (e & Ee & He). rewrite Forall_forall in bq_idlt0. specialize (bq_idlt0 e He). lia.
    - apply Forall_app. split; [eapply Forall_impl; [|exact bq_idlt0]; cbn beta; intros a Ha; lia|].
      constructor; [cbn; lia | constructor].
    - apply Forall_app. split; [exact bq_read0|]. constructor; [|constructor].
      intros q Hq Hnz. unfold ReadOK in HR. rewrite Hkq' in Hq |- *. rewrite Hkq in HR. destruct (HR q Hq Hnz) as [[A B]|A]; [left | right; exact A].
      split; [exact A | exact B].
    - rewrite app_nil_r. apply Forall_app. split.
      + eapply Forall_impl; [|exact Hrc1]. intros a. apply RecvOKq_mono. intros e He. apply in_or_app. left. exact He.
      + constructor; [|constructor]. intros ch Hch. destruct (Hrcr ch Hch) as (A & p & B & C & D).
        split; [exact A|]. exists p. rewrite Hkq'. rewrite Hkq in B. split; [exact B|]. split; [exact C|].
        destruct D as [(D1 & rp & D2 & D3 & D4)|D]; [left | right; exact D]. split; [exact D1|]. exists rp. split; [apply in_or_app; left; exact D2 | auto].
    - apply Forall_app. split.
      + eapply Forall_impl; [|exact bq_fwder0]. intros a Ha ch Hch. destruct (Ha ch Hch) as (A1 & A2 & A3). split; [assumption | split; [lia | assumption]].
      + constructor; [|constructor]. intros ch Hch. cbn in Hch. pose proof (Forall_inv bq_pendf0) as Hpf. cbv beta in Hpf. congruence.
    - rewrite app_nil_r. rewrite (recvs_snoc_eq _ r r') by reflexivity. exact bq_rnd0.
    - rewrite app_nil_r. rewrite (recvs_snoc_eq _ r r') by reflexivity. eapply Forall_impl; [|exact bq_rlt0]. cbn beta. intros a Ha. lia.
    - reflexivity.
    - cbn. lia.
    - constructor.
    - intros p Hp. destruct (bq_prev0 p Hp) as (A & B & C). split; [apply in_or_app; left; exact A | auto].
    - rewrite fwds_app. assert (Hf' : q_fwder r' = None) by (pose proof (Forall_inv bq_pendf0) as Hpf; exact Hpf).
      unfold fwds at 2. cbn [flat_map]. rewrite Hf'. cbn [List.app]. rewrite app_nil_r. exact bq_fnd0.
  Qed.

  Definition marked (x : mx) (id : Z) : mx :=
    set_os3 (set_next3 (set_ebus3 x (ebus_mark (x_ebus x) id (x_next x))) (x_next x + 1)) false.

  Lemma BI_mark dp d xe w pv x r p reg : BIq dp d xe w [r] pv x -> (d <= N)%nat -> In p pv -> reg <> 0 -> In reg (wrs (kq p)) ->
    (forall b : bool, BIq dp d xe w [if b then mk_r3 (q_r r) (q_id r) (q_fwder r) (Some (x_next x)) reg else r] [] (marked x (q_id p))) /\
    flat (x_ebus (marked x (q_id p))) = map (mark_fwder (q_id p) (x_next x)) (flat (x_ebus x)).
  Proof.
    intros HB HdN Hp Hnz Hw. pose proof HB as HBd; dBI HBd.
    set (ch := x_next x) in *. set (id := q_id p) in *.
    set (r' := mk_r3 (q_r r) (q_id r) (q_fwder r) (Some ch) reg).
    assert (Hfl : flat (x_ebus (marked x id)) = map (mark_fwder id ch) (flat (x_ebus x))) by apply flat_mark.
    split; [|exact Hfl]. intros b.
    destruct (bq_prev0 p Hp) as (Hpin & Hpf & _).
    destruct (ebus_entry _ _ _ _ _ _ _ _ HB Hpin) as (kp & Hkp & Hpq & Hpk).
    assert (Hqr : q_r r = rnq d) by (cbn in bq_pendr0; injection bq_pendr0 as E; exact E).
    assert (Hkq : kq r = d) by (apply kq_rn; exact Hqr).
    assert (Hkq' : kq r' = d) by (apply kq_rn; exact Hqr).
    apply Forall_app in bq_recv0 as [Hrc1 Hrc2].
    (* an entry other than p is not touched *)
    assert (Hother : forall e, In e (flat (x_ebus x)) -> q_fwder e <> None -> mark_fwder id ch e = e).
    { intros e He Hf. apply mark_other. intros Eid. assert (e = p) by (eapply nodup_id_eq; eauto). subst e. contradiction. }
    assert (Hrecv_old : forall a, RecvOKq xe (flat (x_ebus x)) (x_chan x) a -> RecvOKq xe (map (mark_fwder id ch) (flat (x_ebus x))) (x_chan x) a).
    { intros a Ha c Hc. destruct (Ha c Hc) as (A & q & B & C & D). split; [exact A|]. exists q. split; [exact B|]. split; [exact C|].
      destruct D as [(D1 & rp & D2 & D3 & D4)|D]; [left | right; exact D]. split; [exact D1|]. exists rp.
      split; [|auto]. rewrite <- (Hother rp D2 ltac:(congruence)). apply in_map. exact D2. }
    constructor; unfold marked; cbn [x_ebus x_m x_crat x_trat x_fwd x_seq x_pcb x_chan x_next x_os set_os3 set_next3 set_ebus3];
      fold ch; fold id; rewrite ?flat_mark; try assumption.
    - rewrite map_map. rewrite <- bq_ebus0. apply map_ext. intros a. apply mark_qr.
    - intros Hpc. destruct (bq_pcb0 Hpc) as (rb & Hrb & Hcb). exists (mark_fwder id ch rb). split; [apply in_map; exact Hrb | rewrite mark_kq; exact Hcb].
    - eapply Forall_impl; [|exact bq_chan0]. cbn beta. intros a Ha. lia.
    - rewrite map_map. erewrite map_ext; [exact bq_idnd0|]. intros a. apply mark_id.
    - apply Forall_map. eapply Forall_impl; [|exact bq_idlt0]. cbn beta. intros a Ha. rewrite mark_id. lia.
    - apply Forall_map. eapply Forall_impl; [|exact bq_read0]. intros a Ha q Hq Hqz. unfold ReadOK in Ha.
      rewrite mark_kq in *. rewrite mark_recv, mark_freg. apply Ha; assumption.
    - apply Forall_app. split.
      + apply Forall_map. eapply Forall_impl; [|exact Hrc1]. intros a Ha c Hc. rewrite mark_recv in Hc.
        destruct (Hrecv_old a Ha c Hc) as (A & B). rewrite mark_freg, mark_kq. split; assumption.
      + constructor; [|constructor]. destruct b; [|apply Hrecv_old; exact (Forall_inv Hrc2)].
        intros c Hc. cbn [q_recv r'] in Hc. injection Hc as <-. cbn [q_freg r'].
        split; [exact Hnz|]. exists kp. rewrite Hkq'. split; [clear - Hkp bq_ord0; lia|]. split; [rewrite <- Hpk; exact Hw|]. left. split; [lia|].
        exists (mark_fwder id ch p). split; [apply in_map; exact Hpin|]. split; [rewrite mark_kq; exact Hpk | apply mark_hit; reflexivity].
    - apply Forall_map. rewrite Forall_forall. intros e He c Hc. rewrite Forall_forall in bq_fwder0.
      destruct (Z.eq_dec (q_id e) id) as [Eid|Nid].
      + rewrite (mark_hit _ _ _ Eid) in Hc. injection Hc as <-. split; [|split; [lia|]].
        * apply (aget_none_fresh _ _ ch); [exact bq_chan0 | lia].
        * assert (e = p) by (eapply nodup_id_eq; eauto). subst e.
          unfold q_instr. rewrite mark_qr, Hpq. cbn [Mvp63RefFwdDefs.rnq r_instr].
          apply (writer_nobranch kp reg); [clear - Hkp HdN bq_ord0; lia | rewrite <- Hpk; exact Hw].
      + rewrite (mark_other _ _ _ Nid) in Hc. destruct (bq_fwder0 e He c Hc) as (A1 & A2 & A3). split; [assumption | split; [lia | unfold q_instr in *; rewrite mark_qr; exact A3]].
    - destruct b; [|rewrite recvs_app, recvs_mark, <- recvs_app; exact bq_rnd0].
      rewrite recvs_app, recvs_mark. unfold recvs at 2. cbn [flat_map q_recv r' List.app].
      rewrite recvs_app in bq_rnd0, bq_rlt0. apply NoDup_app_left in bq_rnd0. apply NoDup_snoc; [exact bq_rnd0|].
      intros Hin. apply Forall_app in bq_rlt0 as [A _]. rewrite Forall_forall in A. specialize (A ch Hin). lia.
    - destruct b; [|rewrite recvs_app, recvs_mark, <- recvs_app; eapply Forall_impl; [|exact bq_rlt0]; cbn beta; intros a Ha; lia].
      rewrite recvs_app, recvs_mark. unfold recvs at 2. cbn [flat_map q_recv r' List.app].
      rewrite recvs_app in bq_rlt0. apply Forall_app in bq_rlt0 as [A _]. apply Forall_app. split.
      + eapply Forall_impl; [|exact A]. cbn beta. intros a Ha. lia.
      + constructor; [lia | constructor].
    - destruct b; exact bq_pendr0.
    - destruct b; [|exact bq_pendf0]. constructor; [|constructor]. cbn. exact (Forall_inv bq_pendf0).
    - intros q [].
    - constructor.
    - reflexivity.
    - apply fwds_mark_nodup; [exact bq_fnd0 | | exact bq_idnd0 |].
      + intros Hin. unfold fwds in Hin. apply in_flat_map in Hin as (e & He & Hc). rewrite Forall_forall in bq_fwder0.
        destruct (q_fwder e) as [c|] eqn:Ec; [|destruct Hc]. destruct Hc as [<-|[]]. destruct (bq_fwder0 e He c Ec) as (_ & Hlt & _). lia.
      + intros a Ha Eid. assert (a = p) by (eapply nodup_id_eq; eauto). subst a. exact Hpf.
  Qed.

  (* ---------------------------------------------------------------- *)
  (* handleRunner on the next instruction of the stream                 *)

  Definition MSame (m m1 : mach) : Prop := exists pw pr, m1 = set_sb m pw pr.
  Lemma MSame_refl m : MSame m m.
  Proof. exists (m_pw m), (m_pr m). destruct m; reflexivity. Qed.

  Lemma busok_mark cy (b : bbus runner3) id ch : BusOK cy b -> BusOK cy (ebus_mark b id ch).
  Proof.
    intros [H1 H2 H3 H4]. constructor; cbn [ebus_mark bb_ql bb_bl bb_buf]; auto.
    - unfold qlen, ebus_mark. cbn [bb_q]. unfold zlen. rewrite map_length. exact H3.
    - apply Forall_map. eapply Forall_impl; [|exact H4]. cbn beta. intros a Ha. exact Ha.
  Qed.

  Lemma canadd_mark (b : bbus runner3) id ch : bb_canadd (ebus_mark b id ch) = bb_canadd b.
  Proof. unfold bb_canadd, ebus_mark. cbn [bb_buf bb_bl]. unfold zlen. rewrite map_length. reflexivity. Qed.

  Lemma isempty_flat3 {T} (b : bbus T) : bb_isempty b = true -> flat b = [].
  Proof.
    unfold bb_isempty. intros H. apply andb_prop in H as [A B]. apply Z.eqb_eq in A, B.
    unfold flat. rewrite (zlen_zero _ A), (zlen_zero _ B). reflexivity.
  Qed.

  Definition hzl (x : mx) (d : nat) : list (Z * Z) :=
    flat_map (fun r => if negb (r =? 0) && (0 <? sb_get (m_pw (x_m x)) r) then [(0, r)] else []) (rds d).

  Lemma hzl_rename x d : hzl x d <> [] -> should_rename3 (hzl x d) = false.
  Proof.
    intros H. unfold should_rename3. destruct (hzl x d) as [|h t] eqn:E; [contradiction|].
    assert (Hh : In h (hzl x d)) by (rewrite E; left; reflexivity). unfold hzl in Hh. apply in_flat_map in Hh as (q & _ & Hq).
    destruct (negb (q =? 0) && (0 <? sb_get (m_pw (x_m x)) q)); [|destruct Hq]. destruct Hq as [<-|[]].
    cbn [existsb fst]. rewrite Z.eqb_refl. cbn. apply andb_false_r.
  Qed.

  Lemma handle_ok cy dp d xe w pv x r pb :
    BIq dp d xe w [r] pv x -> x_prev x = pv -> (d < n)%nat -> (d <= N)%nat -> bb_bl (x_ebus x) = 2 ->
    (pb = true -> flat (x_ebus x) <> []) ->
    exists push stop r1 x1,
      handle_runner3 ord cy x [] pb r = (push, stop, r1, x1) /\
      x_pend x1 = x_pend x /\ x_prev x1 = x_prev x /\ MSame (x_m x) (x_m x1) /\
      bb_ql (x_ebus x1) = bb_ql (x_ebus x) /\ bb_bl (x_ebus x1) = bb_bl (x_ebus x) /\ qlen (x_ebus x1) = qlen (x_ebus x) /\
      (BusOK cy (x_ebus x) -> BusOK cy (x_ebus x1)) /\
      (forall d0 cur, (forall p, In p pv -> (kq p < d0)%nat) -> CurOK d0 x cur -> CurOK d0 x1 cur) /\
      ((push = true /\ BIq dp (S d) xe w [] (if stop then [] else pv) x1 /\ blen (x_ebus x1) = blen (x_ebus x) + 1 /\
        In r1 (flat (x_ebus x1)) /\ q_fwder r1 = None /\ kq r1 = d) \/
       (push = false /\ stop = true /\ BIq dp d xe w [r1] [] x1 /\ BIq dp d xe w [r] [] x1 /\ blen (x_ebus x1) = blen (x_ebus x) /\ x_m x1 = x_m x)) /\
      (flat (x_ebus x) = [] -> w = d -> push = true).
  Proof.
    intros HB Hpv Hdn HdN Hbl Hpb. pose proof HB as HB0. dBI HB0.
    assert (Hqr : q_r r = rnq d) by (cbn in bq_pendr0; injection bq_pendr0 as E; exact E).
    assert (Hkq : kq r = d) by (apply kq_rn; exact Hqr).
    assert (Hinstr : q_instr r = ik d) by (apply q_instr_rn; exact Hqr).
    assert (Hrf : q_fwder r = None) by exact (Forall_inv bq_pendf0).
    (* the results that leave the machine as it is *)
    assert (Hstay : exists push stop r1 x1, (false, true, r, x) = (push, stop, r1, x1) /\
      x_pend x1 = x_pend x /\ x_prev x1 = x_prev x /\ MSame (x_m x) (x_m x1) /\
      bb_ql (x_ebus x1) = bb_ql (x_ebus x) /\ bb_bl (x_ebus x1) = bb_bl (x_ebus x) /\ qlen (x_ebus x1) = qlen (x_ebus x) /\
      (BusOK cy (x_ebus x) -> BusOK cy (x_ebus x1)) /\
      (forall d0 cur, (forall p, In p pv -> (kq p < d0)%nat) -> CurOK d0 x cur -> CurOK d0 x1 cur) /\
      ((push = true /\ BIq dp (S d) xe w [] (if stop then [] else pv) x1 /\ blen (x_ebus x1) = blen (x_ebus x) + 1 /\
        In r1 (flat (x_ebus x1)) /\ q_fwder r1 = None /\ kq r1 = d) \/
       (push = false /\ stop = true /\ BIq dp d xe w [r1] [] x1 /\ BIq dp d xe w [r] [] x1 /\ blen (x_ebus x1) = blen (x_ebus x) /\ x_m x1 = x_m x))).
    { exists false, true, r, x. split; [reflexivity|]. repeat (split; [first [reflexivity | apply MSame_refl | auto]|]).
      right. repeat (split; [reflexivity|]). split; [eapply BI_noprev; exact HB|]. split; [eapply BI_noprev; exact HB | auto]. }
    unfold handle_runner3. rewrite Hinstr.
    destruct (InstructionType_IsBranch (instr_InstructionType (ik d)) && pb) eqn:Ebr.
    { destruct Hstay as (a & b & c & e & E & Hrest). exists a, b, c, e. rewrite <- E. split; [reflexivity|].
      destruct Hrest as (R1&R2&R3&R4&R5&R6&R7&R8&R9). do 8 (split; [assumption|]). split; [exact R9|].
      intros Hfl _. exfalso. apply andb_prop in Ebr as [_ Hpt]. exact (Hpb Hpt Hfl). }
    rewrite is_ret_type.
    destruct (is_ret (ik d) && (negb (bb_isempty (x_ebus x)) || x_pcb x)) eqn:Eret.
    { destruct Hstay as (a & b & c & e & E & Hrest). exists a, b, c, e. rewrite <- E. split; [reflexivity|].
      destruct Hrest as (R1&R2&R3&R4&R5&R6&R7&R8&R9). do 8 (split; [assumption|]). split; [exact R9|].
      intros Hfl _. exfalso. apply andb_prop in Eret as [_ Hne]. apply orb_prop in Hne as [Hne|Hne].
      - apply negb_true_iff in Hne. apply flat_nil_inv in Hfl as [A B]. unfold bb_isempty in Hne. rewrite A, B in Hne. discriminate.
      - destruct (bq_pcb0 Hne) as (rb & Hrb & _). rewrite Hfl in Hrb. destruct Hrb. }
    assert (Hret : is_ret (ik d) = true -> xe = d).
    { intros Hr. rewrite Hr in Eret. cbn [andb] in Eret. apply orb_false_iff in Eret as [Eret _]. apply negb_false_iff in Eret. apply isempty_flat3 in Eret.
      rewrite Eret in bq_ebus0. cbn [map] in bq_ebus0. symmetry in bq_ebus0. apply map_eq_nil in bq_ebus0.
      apply (f_equal (@length nat)) in bq_ebus0. rewrite seq_length in bq_ebus0. cbn in bq_ebus0. lia. }
    change (skipped_hazard3 [] (ik d)) with false. cbv iota.
    rewrite (hazards_spec _ _ _ _ _ _ _ HB Hdn). fold (hzl x d).
    (* pushing r' on x' *)
    assert (Hpush : forall x' r' pv' stp, BIq dp d xe w [r'] pv' x' -> ReadOK w r' -> q_fwder r' = None ->
              bb_canadd (x_ebus x') = true ->
              x_pend x' = x_pend x -> x_prev x' = x_prev x -> x_m x' = x_m x ->
              bb_ql (x_ebus x') = bb_ql (x_ebus x) -> bb_bl (x_ebus x') = bb_bl (x_ebus x) -> qlen (x_ebus x') = qlen (x_ebus x) ->
              blen (x_ebus x') = blen (x_ebus x) ->
              (BusOK cy (x_ebus x) -> BusOK cy (x_ebus x')) ->
              (forall d0 cur, (forall p, In p pv -> (kq p < d0)%nat) -> CurOK d0 x cur -> CurOK d0 x' cur) ->
              (stp = false -> pv' = pv) -> (stp = true -> pv' = []) ->
              exists push stop r1 x1, push_or_stop3 x' cy r' stp = (push, stop, r1, x1) /\
                x_pend x1 = x_pend x /\ x_prev x1 = x_prev x /\ MSame (x_m x) (x_m x1) /\
                bb_ql (x_ebus x1) = bb_ql (x_ebus x) /\ bb_bl (x_ebus x1) = bb_bl (x_ebus x) /\ qlen (x_ebus x1) = qlen (x_ebus x) /\
                (BusOK cy (x_ebus x) -> BusOK cy (x_ebus x1)) /\
                (forall d0 cur, (forall p, In p pv -> (kq p < d0)%nat) -> CurOK d0 x cur -> CurOK d0 x1 cur) /\
                ((push = true /\ BIq dp (S d) xe w [] (if stop then [] else pv) x1 /\ blen (x_ebus x1) = blen (x_ebus x) + 1 /\
                  In r1 (flat (x_ebus x1)) /\ q_fwder r1 = None /\ kq r1 = d) \/
                 (push = false /\ stop = true /\ BIq dp d xe w [r1] [] x1 /\ BIq dp d xe w [r] [] x1 /\ blen (x_ebus x1) = blen (x_ebus x) /\ x_m x1 = x_m x)) /\
                push = true).
    { intros x' r' pv' stp HB' HR' Hf' Hca E1 E2 E3 E4 E5 E6 E7 Hbus Hcur Hs1 Hs2.
      unfold push_or_stop3. rewrite (push_runner3_eq _ _ _ Hca).
      destruct (BI_push cy _ _ _ _ _ _ _ HB' Hdn HdN HR' Hret) as (HBp & Hkp & Hflp).
      exists true, stp, (snd (pushed x' cy r')), (fst (pushed x' cy r')).
      split; [destruct (pushed x' cy r'); reflexivity|].
      split; [exact E1|]. split; [exact E2|].
      split; [unfold pushed; cbn [fst x_m set_next3 set_m]; rewrite E3; eexists _, _; reflexivity|].
      split; [exact E4|]. split; [exact E5|]. split; [exact E6|].
      split; [intros Hb; unfold pushed; cbn [fst x_ebus set_next3 set_m set_ebus3]; apply add_ok; apply Hbus; exact Hb|].
      split.
      { intros d0 cur Hlt Hc c Hin. destruct (Hcur d0 cur Hlt Hc c Hin) as (A & B & C). rewrite Hflp.
        split; [apply in_or_app; left; exact A | auto]. }
      split; [|reflexivity]. left. split; [reflexivity|].
      split.
      { destruct stp; [rewrite (Hs2 eq_refl) in HBp | rewrite (Hs1 eq_refl) in HBp]; exact HBp. }
      split.
      { unfold pushed; cbn [fst x_ebus set_next3 set_m set_ebus3]. unfold blen, bb_add. cbn [bb_buf]. rewrite zlen_app, zlen_cons, zlen_nil.
        unfold blen in E7. lia. }
      split; [rewrite Hflp; apply in_or_app; right; left; reflexivity|].
      split; [exact Hf' | exact Hkp]. }
    destruct (zlen (hzl x d) =? 0) eqn:Ez.
    - (* no hazard *)
      apply Z.eqb_eq in Ez. apply zlen_zero in Ez.
      assert (HR : ReadOK w r).
      { intros q Hq Hqz. rewrite Hkq in *. right. pose proof (rds_rng app Hrng d q Hq).
        eapply (pw_zero_nowriter _ _ _ _ _ _ _ q HB); [lia|].
        pose proof (flat_map_nil_inv _ _ Ez q Hq) as Hc. cbv beta in Hc.
        destruct (Z.eqb_spec q 0); [contradiction|]. cbn [negb andb] in Hc. destruct (0 <? sb_get (m_pw (x_m x)) q); [discriminate | reflexivity]. }
      destruct (bb_canadd (x_ebus x)) eqn:Eca.
      + destruct (Hpush x r pv false HB HR Hrf Eca) as (a & b & c & e & E & R1&R2&R3&R4&R5&R6&R7&R8&R9&R10); auto; try discriminate.
        exists a, b, c, e. split; [exact E|]. do 8 (split; [assumption|]). split; [exact R9 | intros _ _; exact R10].
      + unfold push_or_stop3, push_runner3. rewrite Eca. cbn [negb].
        destruct Hstay as (a & b & c & e & E & Hrest). exists a, b, c, e. rewrite <- E. split; [reflexivity|].
        destruct Hrest as (R1&R2&R3&R4&R5&R6&R7&R8&R9). do 8 (split; [assumption|]). split; [exact R9|].
        intros Hfl _. exfalso. apply flat_nil_inv in Hfl as [_ B]. unfold bb_canadd in Eca. rewrite B, Hbl in Eca. discriminate.
    - (* some hazard *)
      assert (Hne : hzl x d <> []) by (intros E0; rewrite E0 in Ez; discriminate).
      assert (Hnoprog : flat (x_ebus x) = [] -> w = d -> False).
      { intros _ Hwd. apply Hne. unfold hzl. apply flat_map_nil_all. intros q Hq.
        destruct (Z.eqb_spec q 0); [reflexivity|]. cbn [negb andb]. pose proof (rds_rng app Hrng d q Hq).
        unfold sb_get. rewrite bq_pw0 by lia. subst w. rewrite Nat.sub_diag. reflexivity. }
      destruct (should_forward3 ord cy x r (hzl x d)) as [[p reg]|] eqn:Esf.
      2:{ rewrite (hzl_rename _ _ Hne).
          destruct Hstay as (a & b & c & e & E & Hrest). exists a, b, c, e. rewrite <- E. split; [reflexivity|].
          destruct Hrest as (R1&R2&R3&R4&R5&R6&R7&R8&R9). do 8 (split; [assumption|]). split; [exact R9|].
          intros A B. destruct (Hnoprog A B). }
      (* forwarding *)
      unfold should_forward3 in Esf. destruct (hzl x d) as [|[[|?|?] rho] [|? ?]] eqn:Ehz; try discriminate Esf.
      apply Mvp63Proofs_first_some in Esf as (id & _ & Esf).
      destruct (find (fun p0 => q_id p0 =? id) (x_prev x)) as [p0|] eqn:Ef; [|discriminate].
      destruct (fwd_match (instr_ReadRegisters (q_instr r)) p0) as [reg0|] eqn:Em; [|discriminate].
      injection Esf as -> ->. apply find_some in Ef as [Hpin _]. rewrite Hpv in Hpin.
      (* what a matching member of prev looks like *)
      assert (Hmatch : forall a rg, In a pv -> fwd_match (instr_ReadRegisters (q_instr r)) a = Some rg ->
                In rg (rds d) /\ rg <> 0 /\ In rg (wrs (kq a)) /\ (xe <= kq a < d)%nat /\ rg = rho).
      { intros a rg Ha Hm. apply fwd_match_spec in Hm as (M1 & M2 & M3). rewrite Hinstr in M1. fold (rds d) in M1.
        destruct (bq_prev0 a Ha) as (Ain & _). destruct (ebus_entry _ _ _ _ _ _ _ _ HB Ain) as (ka & Hka & Aq & Ak).
        rewrite (q_instr_rn _ _ Aq) in M3. fold (wrs ka) in M3. rewrite Ak.
        split; [exact M1|]. split; [exact M2|]. split; [exact M3|]. split; [exact Hka|].
        pose proof (rds_rng app Hrng d rg M1) as Hrr.
        assert (Hpos : (0 <? sb_get (m_pw (x_m x)) rg) = true).
        { eapply (pw_pos_writer _ _ _ _ _ _ _ rg HB); [lia|]. exists ka. split; [lia | exact M3]. }
        assert (Hx := flat_map_single (fun q => negb (q =? 0) && (0 <? sb_get (m_pw (x_m x)) q)) (fun q => (0, q)) (rds d) (0, rho) Ehz rg M1).
        cbv beta in Hx. rewrite Hpos in Hx. destruct (Z.eqb_spec rg 0); [contradiction|]. specialize (Hx eq_refl). injection Hx as Hx. exact Hx. }
      destruct (Hmatch p reg Hpin Em) as (G1 & G2 & G3 & G4 & G5).
      (* the ghost flag stays clear *)
      assert (Hfom : forward_order_matters x r = false).
      { unfold forward_order_matters. apply Z.ltb_ge. unfold zlen.
        assert (Hl : (length (filter (fun p0 => match fwd_match (instr_ReadRegisters (q_instr r)) p0 with Some _ => true | None => false end) (x_prev x)) <= 1)%nat); [|lia].
        rewrite Hpv. apply (filter_le1 kq); [exact bq_prevnd0|].
        intros a b Ha Hb Ca Cb.
        destruct (fwd_match (instr_ReadRegisters (q_instr r)) a) as [ra|] eqn:Ea; [|discriminate].
        destruct (fwd_match (instr_ReadRegisters (q_instr r)) b) as [rb|] eqn:Eb; [|discriminate].
        destruct (Hmatch a ra Ha Ea) as (_ & A2 & A3 & A4 & A5). destruct (Hmatch b rb Hb Eb) as (_ & B2 & B3 & B4 & B5).
        subst ra rb. destruct (Nat.lt_trichotomy (kq a) (kq b)) as [Hlt|[Heq|Hgt]]; [exfalso | exact Heq | exfalso].
        - exact (ssa_waw app Hssa (kq a) (kq b) rho ltac:(fold n; lia) A3 A2 B3).
        - exact (ssa_waw app Hssa (kq b) (kq a) rho ltac:(fold n; lia) B3 B2 A3). }
      rewrite bq_os0, Hfom. cbn [orb]. fold (marked x (q_id p)).
      destruct (BI_mark _ _ _ _ _ _ _ _ _ HB HdN Hpin G2 G3) as (HBm & Hflm).
      set (r' := mk_r3 (q_r r) (q_id r) (q_fwder r) (Some (x_next x)) reg) in *.
      assert (HR' : ReadOK w r').
      { intros q Hq Hqz. change (kq r') with (kq r) in *. rewrite Hkq in *. destruct (Z.eq_dec q reg) as [->|Hqr'].
        - left. split; [discriminate | reflexivity].
        - right. pose proof (rds_rng app Hrng d q Hq). eapply (pw_zero_nowriter _ _ _ _ _ _ _ q HB); [lia|].
          destruct (0 <? sb_get (m_pw (x_m x)) q) eqn:Epos; [|reflexivity]. exfalso.
          assert (Hx := flat_map_single (fun q => negb (q =? 0) && (0 <? sb_get (m_pw (x_m x)) q)) (fun q => (0, q)) (rds d) (0, rho) Ehz q Hq).
          cbv beta in Hx. rewrite Epos in Hx. destruct (Z.eqb_spec q 0); [contradiction|]. specialize (Hx eq_refl). injection Hx as Hx. congruence. }
      assert (Hcurm : forall d0 cur, (forall p, In p pv -> (kq p < d0)%nat) -> CurOK d0 x cur -> CurOK d0 (marked x (q_id p)) cur).
      { intros d0 cur Hlt Hc c Hin. destruct (Hc c Hin) as (A & B & C). rewrite Hflm. split; [|auto].
        rewrite <- (mark_other (q_id p) (x_next x) c).
        - apply in_map. exact A.
        - intros Eid. destruct (bq_prev0 p Hpin) as (Pin & _). assert (c = p) by (eapply nodup_id_eq; eauto). subst c.
          specialize (Hlt p Hpin). lia. }
      destruct (bb_canadd (x_ebus (marked x (q_id p)))) eqn:Eca.
      + destruct (Hpush (marked x (q_id p)) r' [] true (HBm true) HR' Hrf Eca) as (a & b & c & e & E & R1&R2&R3&R4&R5&R6&R7&R8&R9&R10);
          try reflexivity; auto; try discriminate.
        * unfold marked, qlen, ebus_mark. cbn [x_ebus set_os3 set_next3 set_ebus3 bb_q]. unfold zlen. rewrite map_length. reflexivity.
        * unfold marked, blen, ebus_mark. cbn [x_ebus set_os3 set_next3 set_ebus3 bb_buf]. unfold zlen. rewrite map_length. reflexivity.
        * intros Hb. apply busok_mark. exact Hb.
        * exists a, b, c, e. split; [exact E|]. do 8 (split; [assumption|]). split; [exact R9 | intros _ _; exact R10].
      + unfold push_or_stop3, push_runner3. rewrite Eca. cbn [negb].
        exists false, true, r', (marked x (q_id p)). split; [reflexivity|].
        split; [reflexivity|]. split; [reflexivity|]. split; [apply MSame_refl|].
        split; [reflexivity|]. split; [reflexivity|].
        split; [unfold marked, qlen, ebus_mark; cbn [x_ebus set_os3 set_next3 set_ebus3 bb_q]; unfold zlen; rewrite map_length; reflexivity|].
        split; [intros Hb; apply busok_mark; exact Hb|]. split; [exact Hcurm|].
        split; [|intros A B; destruct (Hnoprog A B)].
        right. split; [reflexivity|]. split; [reflexivity|]. split; [exact (HBm true)|]. split; [exact (HBm false)|].
        split; [unfold marked, blen, ebus_mark; cbn [x_ebus set_os3 set_next3 set_ebus3 bb_buf]; unfold zlen; rewrite map_length; reflexivity | reflexivity].
  Qed.

  (* ---------------------------------------------------------------- *)
  (* the two loops of controlUnit.cycle                                 *)

  Record CuPost (cy : Z) (d0 : nat) (x x' : mx) (l' : culoc) : Prop := mkCuPost {
    cp_cur : CurOK d0 x' (l_cur l');
    cp_nd : NoDup (map kq (l_cur l'));
    cp_pend : x_pend x' = x_pend x;
    cp_prev : x_prev x' = x_prev x;
    cp_m : MSame (x_m x) (x_m x');
    cp_ql : bb_ql (x_ebus x') = bb_ql (x_ebus x);
    cp_bl : bb_bl (x_ebus x') = bb_bl (x_ebus x);
    cp_q : qlen (x_ebus x') = qlen (x_ebus x);
    cp_bus : BusOK cy (x_ebus x) -> BusOK cy (x_ebus x') }.

  Lemma MSame_trans a b c : MSame a b -> MSame b c -> MSame a c.
  Proof. intros (p1 & q1 & ->) (p2 & q2 & ->). exists p2, q2. reflexivity. Qed.

  (* what both loops do after a push: pendingConditionalBranch, pushedBranchInCurrentCycle *)
  Definition apx (x : mx) (k : nat) : mx := if condbr (ik k) then set_pcb3 x true else x.
  Definition isbr (k : nat) : bool := InstructionType_IsBranch (instr_InstructionType (ik k)).

  Lemma after_push_eq x l r k : q_r r = rnq k ->
    after_push3 x l r = (apx x k, mk_cul (l_cur l ++ [r]) (l_skipped l) (l_pbranch l || isbr k)).
  Proof. intros H. unfold after_push3, apx, isbr, condbr. rewrite (q_instr_rn _ _ H). reflexivity. Qed.

  Lemma BI_pcb_set dp d xe w pl pv x r1 : BIq dp d xe w pl pv x -> In r1 (flat (x_ebus x)) -> condbr (ik (kq r1)) = true ->
    BIq dp d xe w pl pv (set_pcb3 x true).
  Proof.
    intros H Hin Hc. dBI H. constructor; cbn [x_ebus x_m x_crat x_trat x_fwd x_seq x_pcb x_chan x_next x_os set_pcb3]; try assumption.
    intros _. exists r1. split; assumption.
  Qed.

  Lemma apx_m x k : x_m (apx x k) = x_m x. Proof. unfold apx. destruct (condbr (ik k)); reflexivity. Qed.
  Lemma apx_ebus x k : x_ebus (apx x k) = x_ebus x. Proof. unfold apx. destruct (condbr (ik k)); reflexivity. Qed.
  Lemma apx_pend x k : x_pend (apx x k) = x_pend x. Proof. unfold apx. destruct (condbr (ik k)); reflexivity. Qed.
  Lemma apx_prev x k : x_prev (apx x k) = x_prev x. Proof. unfold apx. destruct (condbr (ik k)); reflexivity. Qed.

  Lemma BI_apx dp d xe w pl pv x r1 k : BIq dp d xe w pl pv x -> In r1 (flat (x_ebus x)) -> kq r1 = k -> BIq dp d xe w pl pv (apx x k).
  Proof.
    intros H Hin Hk. unfold apx. destruct (condbr (ik k)) eqn:Ec; [|exact H].
    apply (BI_pcb_set _ _ _ _ _ _ _ r1 H Hin). rewrite Hk. exact Ec.
  Qed.

  (* handleRunner followed by what the loop does with its result *)
  Lemma handle_ok2 cy dp d xe w pv x r l :
    BIq dp d xe w [r] pv x -> x_prev x = pv -> (d < n)%nat -> (d <= N)%nat -> bb_bl (x_ebus x) = 2 ->
    l_skipped l = [] -> (l_pbranch l = true -> flat (x_ebus x) <> []) ->
    exists push stop r1 x1 x2 l2,
      handle_runner3 ord cy x (l_skipped l) (l_pbranch l) r = (push, stop, r1, x1) /\
      (if push then after_push3 x1 l r1 else (x1, mk_cul (l_cur l) (l_skipped l ++ [r1]) (l_pbranch l))) = (x2, l2) /\
      x_pend x2 = x_pend x /\ x_prev x2 = x_prev x /\ MSame (x_m x) (x_m x2) /\
      bb_ql (x_ebus x2) = bb_ql (x_ebus x) /\ bb_bl (x_ebus x2) = bb_bl (x_ebus x) /\ qlen (x_ebus x2) = qlen (x_ebus x) /\
      (BusOK cy (x_ebus x) -> BusOK cy (x_ebus x2)) /\
      (forall d0 cur, (forall p, In p pv -> (kq p < d0)%nat) -> CurOK d0 x cur -> CurOK d0 x2 cur) /\
      ((push = true /\ BIq dp (S d) xe w [] (if stop then [] else pv) x2 /\ blen (x_ebus x2) = blen (x_ebus x) + 1 /\
        In r1 (flat (x_ebus x2)) /\ q_fwder r1 = None /\ kq r1 = d /\
        l2 = mk_cul (l_cur l ++ [r1]) [] (l_pbranch l || isbr d)) \/
       (push = false /\ stop = true /\ BIq dp d xe w [r1] [] x2 /\ BIq dp d xe w [r] [] x2 /\ blen (x_ebus x2) = blen (x_ebus x) /\ x_m x2 = x_m x /\
        l2 = mk_cul (l_cur l) [r1] (l_pbranch l))) /\
      (flat (x_ebus x) = [] -> w = d -> push = true).
  Proof.
    intros HB Hpv Hdn HdN Hbl Hsk Hpb. rewrite Hsk.
    destruct (handle_ok cy _ _ _ _ _ _ _ (l_pbranch l) HB Hpv Hdn HdN Hbl Hpb)
      as (push & stop & r1 & x1 & E & P1 & P2 & P3 & P4 & P5 & P6 & P7 & P8 & [(-> & HBn & P9 & P10 & P11 & P12)|(-> & -> & HBn & HBo & P9 & P10)] & Hprog).
    - destruct (ebus_entry _ _ _ _ _ _ _ _ HBn P10) as (k1 & _ & Hq1 & Hk1). rewrite <- Hk1, P12 in Hq1.
      exists true, stop, r1, x1, (apx x1 d), (mk_cul (l_cur l ++ [r1]) [] (l_pbranch l || isbr d)).
      split; [exact E|]. split; [rewrite (after_push_eq x1 l r1 d Hq1), Hsk; reflexivity|].
      rewrite apx_pend, apx_prev, apx_m, apx_ebus.
      do 7 (split; [assumption|]).
      split; [intros d0 cur Hlt Hc c Hin; rewrite apx_ebus; exact (P8 d0 cur Hlt Hc c Hin)|].
      split; [|exact Hprog]. left. split; [reflexivity|].
      split; [apply (BI_apx _ _ _ _ _ _ _ r1 d HBn P10 P12)|]. auto.
    - exists false, true, r1, x1, x1, (mk_cul (l_cur l) [r1] (l_pbranch l)).
      split; [exact E|]. split; [reflexivity|]. do 8 (split; [assumption|]).
      split; [|exact Hprog]. right. repeat (split; [first [reflexivity | assumption]|]). reflexivity.
  Qed.

  Lemma BI_addpend dp d xe w pv x : BIq dp d xe w [] pv x -> BIq dp d xe w [r3_of (rnq d)] pv x.
  Proof.
    intros HB. dBI HB. constructor; try assumption.
    - rewrite app_nil_r in bq_recv0. apply Forall_app. split; [exact bq_recv0|]. constructor; [|constructor]. intros ch Hc. discriminate Hc.
    - rewrite recvs_app in *. exact bq_rnd0.
    - rewrite recvs_app in *. exact bq_rlt0.
    - cbn. rewrite Nat.add_0_r || idtac. reflexivity.
    - cbn. lia.
    - constructor; [reflexivity | constructor].
  Qed.

  Lemma in_flat_ne (x : mx) (r1 : runner3) : In r1 (flat (x_ebus x)) -> flat (x_ebus x) <> [].
  Proof. intros H E. rewrite E in H. destruct H. Qed.

  Lemma cu_incoming_ok cy dp xe w pv d0 : forall len d x l,
    BIq dp d xe w [] pv x -> x_prev x = pv -> (d + len <= n)%nat -> (d + len <= S N)%nat -> bb_bl (x_ebus x) = 2 ->
    l_skipped l = [] -> (l_pbranch l = true -> flat (x_ebus x) <> []) -> CurOK d0 x (l_cur l) -> NoDup (map kq (l_cur l)) ->
    (forall c, In c (l_cur l) -> (kq c < d)%nat) -> (forall p, In p pv -> (kq p < d0)%nat) -> (d0 <= d)%nat ->
    exists lp pend' l' x' pv',
      cu_incoming3 ord cy (map rnq (seq d len)) [] l x
        = (map rnq (seq (d + (lp + length pend')) (len - (lp + length pend'))), pend', l', x') /\
      (lp + length pend' <= len)%nat /\
      BIq dp (d + lp) xe w pend' pv' x' /\ CuPost cy d0 x x' l' /\
      (flat (x_ebus x) = [] -> w = d -> (0 < len)%nat -> (0 < lp)%nat).
  Proof.
    induction len as [|len IH]; intros d x l HB Hpv Hn HN Hbl Hsk Hpb Hcur Hnd Hlt Hpvlt Hd0.
    - exists O, [], l, x, pv. cbn [seq map cu_incoming3 length]. change (pendingLength <=? zlen (@nil runner3)) with false. cbv iota.
      rewrite !Nat.add_0_r. split; [reflexivity|]. split; [lia|]. split; [exact HB|].
      split; [constructor; auto; apply MSame_refl | lia].
    - cbn [seq map cu_incoming3]. change (pendingLength <=? zlen (@nil runner3)) with false. cbv iota.
      destruct (handle_ok2 cy _ _ _ _ _ _ _ l (BI_addpend _ _ _ _ _ _ HB) Hpv ltac:(lia) ltac:(lia) Hbl Hsk Hpb)
        as (push & stop & r1 & x1 & x2 & l2 & E & E2 & P1 & P2 & P3 & P4 & P5 & P6 & P7 & P8 &
            [(-> & HBn & P9 & P10 & P11 & P12 & ->)|(-> & -> & HBn & HBo & P9 & P10 & ->)] & Hprog).
      + rewrite E. cbv beta iota. rewrite E2. cbv beta iota.
        assert (Hcur1 : CurOK d0 x2 (l_cur l ++ [r1])).
        { intros c Hin. apply in_app_or in Hin as [Hin|[<-|[]]]; [exact (P8 d0 _ Hpvlt Hcur c Hin)|].
          split; [exact P10|]. split; [exact P11|]. lia. }
        assert (Hnd1 : NoDup (map kq (l_cur l ++ [r1]))).
        { rewrite map_app. cbn [map]. apply NoDup_snoc; [exact Hnd|]. intros Hin. apply in_map_iff in Hin as (c & Ec & Hc).
          specialize (Hlt c Hc). lia. }
        destruct stop.
        * exists 1%nat, [], (mk_cul (l_cur l ++ [r1]) [] (l_pbranch l || isbr d)), x2, []. cbn [length]. rewrite Nat.add_0_r.
          replace (d + 1)%nat with (S d) by lia. replace (S len - 1)%nat with len by lia.
          split; [reflexivity|]. split; [lia|]. split; [exact HBn|]. split; [constructor; auto | lia].
        * assert (Hlt1 : forall c, In c (l_cur (mk_cul (l_cur l ++ [r1]) [] (l_pbranch l || isbr d))) -> (kq c < S d)%nat).
          { intros c Hin. cbn [l_cur] in Hin. apply in_app_or in Hin as [Hin|[<-|[]]]; [specialize (Hlt c Hin); lia | lia]. }
          destruct (IH (S d) x2 (mk_cul (l_cur l ++ [r1]) [] (l_pbranch l || isbr d)) HBn ltac:(congruence) ltac:(lia) ltac:(lia) ltac:(congruence)
                     eq_refl ltac:(intros _; exact (in_flat_ne _ _ P10)) Hcur1 Hnd1 Hlt1 Hpvlt ltac:(lia))
            as (lp & pend' & l' & x' & pv' & E3 & Hle & HB' & [C1 C2 C3 C3' C4 C5 C6 C7 C8] & _).
          exists (S lp), pend', l', x', pv'. rewrite E3.
          replace (d + (S lp + length pend'))%nat with (S d + (lp + length pend'))%nat by lia.
          replace (S len - (S lp + length pend'))%nat with (len - (lp + length pend'))%nat by lia.
          split; [reflexivity|]. split; [lia|]. split; [replace (d + S lp)%nat with (S d + lp)%nat by lia; exact HB'|].
          split; [|lia]. constructor; auto; try congruence.
          -- eapply MSame_trans; eassumption.
      + assert (Ex : x1 = x2) by (cbv iota in E2; congruence). subst x2.
        rewrite E. cbv beta iota. rewrite Hsk. exists O, [r1], (mk_cul (l_cur l) ([] ++ [r1]) (l_pbranch l)), x1, []. cbn [length List.app].
        replace (d + (0 + 1))%nat with (S d) by lia. replace (S len - (0 + 1))%nat with len by lia. rewrite Nat.add_0_r.
        split; [reflexivity|]. split; [lia|]. split; [exact HBn|]. split.
        * constructor; auto; try (cbn [l_cur]; exact (P8 d0 _ Hpvlt Hcur)).
        * intros A B _. specialize (Hprog A B). discriminate.
  Qed.

  Notation FrontI := (FrontI app base).

  Lemma prev_lt dp d xe w pl pv x p : BIq dp d xe w pl pv x -> In p pv -> (kq p < d)%nat.
  Proof.
    intros HB Hp. destruct (bq_prev _ _ _ _ _ _ _ HB p Hp) as (A & _). destruct (ebus_entry _ _ _ _ _ _ _ _ HB A) as (k & Hk & _ & E). lia.
  Qed.

  Lemma cu_pending_ok cy dp d xe w x :
    BIq dp d xe w (x_pend x) (x_prev x) x -> (d + length (x_pend x) <= n)%nat -> (d + length (x_pend x) <= S N)%nat ->
    bb_bl (x_ebus x) = 2 ->
    exists stopped pend1 l1 x1 lp pv',
      cu_pending3 ord cy (x_pend x) [] (mk_cul [] [] false) x = (stopped, pend1, l1, x1) /\
      BIq dp (d + lp) xe w pend1 pv' x1 /\ CuPost cy d x x1 l1 /\ (lp + length pend1 = length (x_pend x))%nat /\
      (stopped = false -> pend1 = [] /\ pv' = x_prev x /\ l_skipped l1 = [] /\ (l_pbranch l1 = true -> flat (x_ebus x1) <> []) /\
                          (forall c, In c (l_cur l1) -> (kq c < d + lp)%nat)) /\
      (flat (x_ebus x) = [] -> w = d -> x_pend x <> [] -> (0 < lp)%nat) /\
      (x_pend x = [] -> x1 = x).
  Proof.
    intros HB Hn HN Hbl. pose proof (bq_pend1 _ _ _ _ _ _ _ HB) as Hl1.
    assert (Hpvlt : forall p, In p (x_prev x) -> (kq p < d)%nat) by (intros p Hp; eapply prev_lt; eauto).
    destruct (x_pend x) as [|r [|r2 t]] eqn:Ep; [| |cbn in Hl1; lia].
    - exists false, [], (mk_cul [] [] false), x, O, (x_prev x). cbn [cu_pending3 rev length]. rewrite Nat.add_0_r.
      split; [reflexivity|]. split; [exact HB|]. split; [constructor; auto; try (intros c []); try constructor; apply MSame_refl|].
      split; [reflexivity|]. split; [|split; [intros _ _ Hx; contradiction | reflexivity]]. intros _. repeat split; auto; try discriminate. intros c [].
    - cbn [cu_pending3 length] in *.
      destruct (handle_ok2 cy _ _ _ _ _ _ _ (mk_cul [] [] false) HB eq_refl ltac:(lia) ltac:(lia) Hbl eq_refl ltac:(discriminate))
        as (push & stop & r1 & x1 & x2 & l2 & E & E2 & P1 & P2 & P3 & P4 & P5 & P6 & P7 & P8 &
            [(-> & HBn & P9 & P10 & P11 & P12 & ->)|(-> & -> & HBn & HBo & P9 & P10 & ->)] & Hprog).
      + rewrite E. cbv beta iota. rewrite E2. cbv beta iota. cbn [l_cur l_skipped l_pbranch List.app orb].
        assert (Hc1 : CurOK d x2 [r1]) by (intros c [<-|[]]; split; [exact P10|]; split; [exact P11 | lia]).
        assert (Hn1 : NoDup (map kq [r1])) by (constructor; [intros [] | constructor]).
        destruct stop.
        * exists true, [], (mk_cul [r1] [] (isbr d)), x2, 1%nat, []. cbn [rev List.app length].
          split; [reflexivity|]. split; [replace (d + 1)%nat with (S d) by lia; exact HBn|].
          split; [constructor; auto; congruence|]. split; [reflexivity|]. split; [discriminate|]. split; [intros; lia | discriminate].
        * exists false, [], (mk_cul [r1] [] (isbr d)), x2, 1%nat, (x_prev x). cbn [cu_pending3 rev List.app length].
          split; [reflexivity|]. split; [replace (d + 1)%nat with (S d) by lia; exact HBn|].
          split; [constructor; auto; congruence|]. split; [reflexivity|]. split; [|split; [intros; lia | discriminate]].
          intros _. repeat split; auto.
          -- intros _. exact (in_flat_ne _ _ P10).
          -- intros c [<-|[]]. lia.
      + assert (Ex : x1 = x2) by (cbv iota in E2; congruence). subst x2.
        rewrite E. cbv beta iota. cbn [l_cur l_skipped l_pbranch List.app].
        exists true, [r], (mk_cul [] ([] ++ [r1]) false), x1, O, []. cbn [rev List.app length].
        rewrite Nat.add_0_r. split; [reflexivity|].
        split; [|split; [constructor; auto; try (intros c []); try constructor; congruence|split; [reflexivity|split; [discriminate|split; [|discriminate]]]]].
        * exact HBo.
        * intros A B _. specialize (Hprog A B). discriminate.
  Qed.

  (* ---------------------------------------------------------------- *)
  (* controlUnit.cycle                                                  *)

  Lemma BI_setfields dp d xe w pl pv x pend prev : BIq dp d xe w pl pv x -> BIq dp d xe w pl pv (set_prev3 (set_pend3 x pend) prev).
  Proof. apply BI_ext; reflexivity. Qed.

  Theorem cu_cycle_okq cy dp d xe w c f x :
    BIq dp d xe w (x_pend x) (x_prev x) x -> FrontI (d + length (x_pend x)) c f cy (untag_m (x_m x)) -> TagOK sq (m_cbus (x_m x)) ->
    m_cu (x_m x) = [] -> BusOK cy (x_ebus x) ->
    exists lp, let x' := cu_cycle3 ord cy x in
      BIq d (d + lp) xe w (x_pend x') (x_prev x') x' /\ FrontI (d + lp + length (x_pend x')) c f cy (untag_m (x_m x')) /\
      TagOK sq (m_cbus (x_m x')) /\
      m_cu (x_m x') = [] /\ BusOK cy (x_ebus x') /\ qlen (x_ebus x') = qlen (x_ebus x) /\
      m_wbus (x_m x') = m_wbus (x_m x) /\ m_bu (x_m x') = m_bu (x_m x) /\ m_fu (x_m x') = m_fu (x_m x) /\
      m_dbus (x_m x') = m_dbus (x_m x) /\ m_l1i (x_m x') = m_l1i (x_m x) /\
      (flat (x_ebus x) = [] -> w = d -> (x_pend x <> [] \/ bb_q (m_cbus (x_m x)) <> []) -> (0 < lp)%nat) /\
      (lp = O -> length (x_pend x') + length (bb_q (m_cbus (x_m x'))) = length (x_pend x) + length (bb_q (m_cbus (x_m x))))%nat.
  Proof.
    intros HB HF HT Hcu Hbus. unfold cu_cycle3.
    pose proof (bus_bl _ _ Hbus) as Hbl.
    destruct (front_cqq app base sq _ _ _ _ _ HF HT Hcu) as [Hq Hqle]. pose proof (front_mincq app base _ _ _ _ _ HF) as HcN.
    fold n in Hqle, HcN. fold N in HcN.
    destruct (bb_canadd (x_ebus x)) eqn:Eca; cbn [negb].
    2:{ exists O. cbv zeta. rewrite Nat.add_0_r. cbn [x_pend x_prev x_m x_ebus set_prev3].
        split; [eapply BI_setprev; [apply BI_noprev with (pv := x_prev x); apply BI_ext with (x := x); try reflexivity; exact HB | intros q [] | constructor]|].
        split; [exact HF|]. split; [exact HT|]. split; [exact Hcu|]. split; [exact Hbus|]. do 6 (split; [reflexivity|]). split; [|intros _; reflexivity].
        intros Hfl _ _. exfalso. apply flat_nil_inv in Hfl as [_ B]. unfold bb_canadd in Eca. rewrite B, Hbl in Eca. discriminate. }
    destruct (cu_pending_ok cy _ _ _ _ _ HB ltac:(lia) ltac:(lia) Hbl)
      as (stopped & pend1 & l1 & x1 & lp1 & pv1 & E1 & HB1 & [C1 C2 C3 C3' C4 C5 C6 C7 C8] & Hlen1 & Hns & Hprog1 & Hnil1).
    rewrite E1. destruct C4 as (pw1 & pr1 & Em1).
    destruct stopped.
    - exists lp1. cbv zeta. cbn [x_pend x_prev x_m x_ebus set_prev3 set_pend3].
      split; [apply BI_setfields with (pend := pend1) (prev := l_cur l1) in HB1; eapply BI_setprev; [eapply BI_noprev; apply BI_ext with (x := set_prev3 (set_pend3 x1 pend1) (l_cur l1)); try reflexivity; exact HB1 | exact C1 | exact C2]|].
      rewrite Em1. cbn [set_sb m_cu m_wbus m_bu m_fu m_dbus m_cbus m_l1i].
      destruct (FrontI_cuq app base sq _ _ _ _ _ pw1 pr1 O HF HT Hcu ltac:(lia)) as [HF' HT']. cbv zeta in HF', HT'.
      rewrite Nat.sub_0_r, Nat.add_0_r in HF', HT'. rewrite <- Hq in HF', HT'.
      assert (Ecb : mk_bb (bb_buf (m_cbus (x_m x))) (bb_q (m_cbus (x_m x))) (bb_ql (m_cbus (x_m x))) (bb_bl (m_cbus (x_m x))) = m_cbus (x_m x)) by (destruct (m_cbus (x_m x)); reflexivity).
      rewrite Ecb in HF', HT'.
      assert (Esc : set_cbus (set_sb (x_m x) pw1 pr1) (m_cbus (x_m x)) = set_sb (x_m x) pw1 pr1) by (destruct (x_m x); reflexivity).
      rewrite Esc in HF', HT'.
      split; [replace (d + lp1 + length pend1)%nat with (d + length (x_pend x))%nat by lia; exact HF'|].
      split; [exact HT'|].
      split; [exact Hcu|]. split; [apply C8; exact Hbus|]. split; [exact C7|]. repeat (split; [reflexivity|]).
      split; [|intros ->; lia].
      intros A B [Hp|Hp]; [apply Hprog1; assumption|].
      destruct (x_pend x) eqn:Ep; [|apply Hprog1; [assumption | assumption | discriminate]].
      (* nothing was pending: the loop over the pendings cannot have stopped *)
      exfalso. cbn [cu_pending3] in E1. discriminate E1.
    - destruct (Hns eq_refl) as (-> & -> & Hsk & Hpb & Hlt1). cbn [length] in Hlen1. rewrite Nat.add_0_r in Hlen1.
      rewrite Em1. cbn [set_sb m_cbus]. rewrite Hq. rewrite <- Hlen1.
      set (len := length (bb_q (m_cbus (x_m x)))) in *.
      destruct (cu_incoming_ok cy dp xe w (x_prev x) d len (d + lp1)%nat x1 l1 HB1 ltac:(congruence) ltac:(lia) ltac:(lia) ltac:(congruence)
                  Hsk Hpb C1 C2 Hlt1 ltac:(intros p Hp; eapply prev_lt; eauto) ltac:(lia))
        as (lp2 & pend2 & l2 & x2 & pv2 & E2 & Hle2 & HB2 & [K1 K2 K3 K3' K4 K5 K6 K7 K8] & Hprog2).
      rewrite E2. destruct K4 as (pw2 & pr2 & Em2).
      exists (lp1 + lp2)%nat. cbv zeta. cbn [x_pend x_prev x_m x_ebus set_prev3 set_pend3 set_m].
      split.
      { eapply BI_setprev; [|exact K1 | exact K2]. eapply BI_noprev. replace (d + (lp1 + lp2))%nat with (d + lp1 + lp2)%nat by lia.
        eapply BI_ext; [..|exact HB2]; reflexivity. }
      rewrite Em2, Em1. cbn [set_sb set_cbus m_cu m_wbus m_bu m_fu m_dbus m_cbus m_l1i bb_q bb_buf bb_ql bb_bl].
      destruct (FrontI_cuq app base sq _ _ _ _ _ pw2 pr2 (lp2 + length pend2) HF HT Hcu ltac:(fold len; lia)) as [HF' HT']. cbv zeta in HF', HT'. fold len in HF', HT'.
      rewrite <- Hlen1 in HF'.
      split; [replace (d + (lp1 + lp2) + length pend2)%nat with (d + lp1 + (lp2 + length pend2))%nat by lia; exact HF'|].
      split.
      { rewrite <- Hlen1 in HT'. cbn [set_sb set_cbus m_cbus] in HT' |- *. exact HT'. }
      split; [exact Hcu|]. split; [apply K8, C8; exact Hbus|]. split; [congruence|]. repeat (split; [reflexivity|]).
      split.
      + intros A B Hor. destruct (Nat.eq_dec lp1 0) as [Hz|]; [|lia].
        assert (Hp0 : x_pend x = []) by (destruct (x_pend x); [reflexivity | cbn in Hlen1; lia]).
        destruct Hor as [Hp|Hp]; [contradiction|].
        assert (Hx1 : flat (x_ebus x1) = flat (x_ebus x)) by (rewrite (Hnil1 Hp0); reflexivity).
        specialize (Hprog2 ltac:(rewrite Hx1; exact A) ltac:(lia)).
        assert ((0 < len)%nat) by (unfold len; destruct (bb_q (m_cbus (x_m x))); [contradiction | cbn; lia]). lia.
      + intros Hz. rewrite ?map_length, ?seq_length. lia.
  Qed.

End RefQ.

Print Assumptions cu_cycle_okq.
