(* Invariant, its preservation and progress for the MVP-5 skeleton with loads and
   store hits (Mvp5mSkel.v).  The front-end part of the invariant is F5 (Mvp5Inv.v)
   of the register-only rview of the skeleton; the execute-unit part is the one of
   MVP-4 (Mvp4mInv.v / Mvp4mFront.v). *)
From Coq Require Import ZArith List Bool Lia.
From Maj Require Import Base.Outcome Base.GoInt Base.GoTypes Isa.Spec Isa.Embed Isa.Seq Isa.Refine.
From Maj Require Import Gen.Latency Gen.RiscTables Gen.Opcodes Comp.Cache Comp.CacheSpec Comp.MapFacts Comp.CacheProofs.
From Maj Require Import Mvp.Mvp12 Mvp.Mvp12Proofs Mvp.Mvp3 Mvp.Mvp3Proofs Mvp.Mvp4 Mvp.Mvp5
     Mvp.Mvp4Skel Mvp.Mvp4Inv Mvp.Mvp4Units Mvp.Mvp4Front Mvp.Mvp4mSkel Mvp.Mvp4mInv Mvp.Mvp4mFront
     Mvp.Mvp5Skel Mvp.Mvp5Inv Mvp.Mvp5Front Mvp.Mvp5mSkel.
Import ListNotations.
Open Scope Z_scope.

(* ------------------------------------------------------------------ *)
(* the invariant                                                        *)

(* the execute unit as the front-end invariant sees it: only whether it holds an
   instruction, and which *)
Definition eu_view (e : eu_t) : eu_t := mk_eu (eu_processing e) false (eu_addrs e) (eu_memory e) 1 (eu_runner e).

Lemma q_eu_view e : q_eu (eu_view e) = q_eu e.
Proof. reflexivity. Qed.

Definition rview (a : skm5) : sk5 :=
  mk_sk5 (n_fu a) (n_du a) (n_l1i a) (n_dbus a) (n_ebus a) (eu_view (n_eu a)) (n_pw a) (n_wb a) (n_btb a).

Definition projm (a : skm5) : skm :=
  mk_skm (to4 (n_fu a)) (n_l1i a) (dclean (n_fu a) (n_dbus a)) (n_ebus a) (n_eu a) (n_pw a) (n_wb a) (n_dt a).

Definition naq (a : skm5) : list (instr * Z) := q_eu (n_eu a) ++ q_sb (n_ebus a).

Record FM5 (app : list instr) (hev : event) (a : skm5) : Prop := mkFM5 {
  h_front : F5 app (ev_pc hev) (rview a);
  h_eu : eu_ok (n_eu a);
  h_pr : eu_pending_read (n_eu a) = true -> n_wb a = None;
  h_miss : eu_pending_read (n_eu a) = true ->
           ev_la hev <> [] /\ (eu_memory (n_eu a) = None -> eu_addrs (n_eu a) = ev_la hev);
  h_dt : zlen (n_dt a) <= 16 }.

(* every store of the remaining path will hit *)
Definition sh_inv5 (a : skm5) (path : list event) : Prop :=
  match path with
  | [] => True
  | hev :: rest =>
      snd (a_get_all (dtal (n_eu a) (n_dt a) (ev_la hev)) (ev_sa hev)) = true /\
      stores_hit (fst (a_get_all (dtal (n_eu a) (n_dt a) (ev_la hev)) (ev_sa hev))) rest = true
  end.

(* a store instruction is not an unconditional jump (the events of a sequential run
   satisfy this, see Mvp5mProofs.v) *)
Definition stores_plain (app : list instr) (path : list event) : Prop :=
  Forall (fun ev => ev_sa ev <> [] -> forall i, nth_error app (Z.to_nat (ev_pc ev / 4)) = Some i -> uncond i = false) path.

Ltac simpn := cbn [rview n_fu n_du n_l1i n_dbus n_ebus n_eu n_pw n_wb n_dt n_btb] in *.

Section FrontM5.
  Variable app : list instr.
  Hypothesis Happ : wf_app app.

  (* building the front-end invariant from its pieces *)
  Lemma F5_build head fu du l1i dbus ebus e pw wb btb :
    0 <= head < 2147483644 ->
    mid_ok app head (q_eu e ++ q_sb ebus) du (dclean fu dbus) (to4 fu) ->
    (f5_processing fu = true -> 1 <= f5_remaining fu <= MemoryAccess) ->
    (eu_processing e = true -> eu_runner e <> None) ->
    IInv l1i -> pw = pwof wb -> (forall wr, wb = Some wr -> (length wr <= 1)%nat) -> btb_ok btb ->
    F5 app head (mk_sk5 fu du l1i dbus ebus (eu_view e) pw wb btb).
  Proof.
    intros Hh (HA & Hq & Hdu & Hent) Hfu Hrun HI Hpw Hwb Hbtb.
    constructor; unfold aq; cbn [k5_fu k5_du k5_l1i k5_dbus k5_ebus k5_eu k5_pw k5_wb k5_btb]; rewrite ?q_eu_view; auto.
    intros Hp. cbn [eu_view eu_processing eu_remaining eu_runner] in *. split; [unfold Cmax; lia | auto].
  Qed.

  Lemma F5_mid head a : F5 app head a ->
    mid_ok app head (aq a) (k5_du a) (dclean (k5_fu a) (k5_dbus a)) (to4 (k5_fu a)).
  Proof. intros [Hh HA Hq Hdu Hent _ _ _ _ _ _ _]. repeat split; assumption. Qed.

  (* the effect of the branch unit's assert on the fetched part of the queue *)
  Lemma assert_flow head A2 du1 dbus2 fu1 btb x :
    mid_ok app head A2 du1 dbus2 (to4 fu1) -> f5_clean fu1 = false ->
    (f5_processing fu1 = true -> 1 <= f5_remaining fu1 <= MemoryAccess) ->
    btb_ok btb ->
    (forall y, x = Some y -> exists rest, A2 = y :: rest) ->
    mid_ok app head A2 du1 (dclean (sk5_assert fu1 btb x) dbus2) (to4 (sk5_assert fu1 btb x)) /\
    (f5_processing (sk5_assert fu1 btb x) = true -> 1 <= f5_remaining (sk5_assert fu1 btb x) <= MemoryAccess).
  Proof.
    intros (HA & (g & n & Hq & Hg & Hgd) & Hdu & Hent) Hcl Hfu Hbtb Hx.
    assert (Hsame : mid_ok app head A2 du1 (dclean fu1 dbus2) (to4 fu1)).
    { split; [exact HA|]. split; [|split; assumption]. exists g, n. split; [apply fq_clean_false; assumption | auto]. }
    destruct x as [[i pc]|]; cbn [sk5_assert]; [|auto].
    destruct (uncond i) eqn:Eu; [|auto].
    destruct (btb_get btb pc) as [t|] eqn:Eb; [|auto].
    destruct (Hx _ eq_refl) as [rest ->].
    destruct (du_ok_head_unc _ _ _ Hdu Eu) as [_ ->].
    split; [|exact Hfu].
    split; [exact HA|]. split; [|split; assumption].
    exists t, O. split; [apply fq_reset|]. split; [eapply btb_get_ok; eassumption | discriminate].
  Qed.

  (* ---------------------------------------------------------------- *)
  (* the instruction at issue                                           *)

  Lemma issue_m_spec e ebus pw dt la e1 ebus2 dt1 act :
    skm_eu e ebus pw dt la = (e1, ebus2, dt1, act) ->
    match issue_m e ebus with
    | Some x => act = AExec (fst x) (snd x) \/ (act = ANone /\ q_eu e1 = [x])
    | None => True
    end.
  Proof.
    unfold skm_eu, issue_m, eu_issue. destruct (eu_pending_read e); [intros _; exact I|].
    destruct (eu_intake e ebus) as [[em eb1] have] eqn:Ei.
    pose proof (intake_have _ _ _ _ _ Ei) as Hh.
    destruct have; cbn [negb]; [|intros _; exact I].
    destruct (negb (eu_remaining em - 1 =? 0)); [intros _; exact I|].
    destruct (eu_runner em) as [[i pc]|] eqn:Er; [|intros _; exact I].
    destruct (pw_hazard pw (instr_ReadRegisters i)).
    { intros H. injection H as <- <- <- <-. right. split; [reflexivity|].
      unfold q_eu, set_rem. cbn [eu_processing eu_runner]. rewrite <- Hh, Er. reflexivity. }
    destruct la as [|a0 la'].
    - intros H. injection H as <- <- <- <-. left. reflexivity.
    - destruct (snd (a_get_all dt (a0 :: la'))); intros H; injection H as <- <- <- <-; right; (split; [reflexivity|]);
        unfold q_eu; cbn [eu_processing eu_runner]; rewrite <- Hh, ?Er; reflexivity.
  Qed.

  Lemma issue_m_in e ebus x : issue_m e ebus = Some x -> In x (q_eu e ++ olist (sb_current ebus)).
  Proof. unfold issue_m. destruct (eu_pending_read e); [discriminate | apply eu_issue_in]. Qed.

  (* ---------------------------------------------------------------- *)
  (* one cycle of the front end and the execute unit                    *)

  Lemma view_aq a : aq (rview a) = naq a.
  Proof. reflexivity. Qed.

  Lemma frontm_flow5 hev a fu1 l1i1 dbus1 du1 dbus2 ebus1 e1 ebus2 dt1 act :
    FM5 app hev a ->
    fu5_cycle app (n_fu a) (n_l1i a) (n_dbus a) = Ok (fu1, l1i1, dbus1) ->
    du5_cycle app (n_du a) dbus1 (n_ebus a) = Ok (du1, dbus2, ebus1) ->
    skm_eu (n_eu a) ebus1 (n_pw a) (n_dt a) (ev_la hev) = (e1, ebus2, dt1, act) ->
    let fuA := sk5_assert fu1 (n_btb a) (issue_m (n_eu a) ebus1) in
    IInv l1i1 /\ (f5_processing fuA = true -> 1 <= f5_remaining fuA <= MemoryAccess) /\
    act <> AStuck /\
    mid_ok app (ev_pc hev) (act_q act ++ q_eu e1 ++ q_sb ebus2) du1 (dclean fuA dbus2) (to4 fuA) /\
    eu_ok e1 /\
    (eu_pending_read e1 = true -> ev_la hev <> [] /\ (eu_memory e1 = None -> eu_addrs e1 = ev_la hev)) /\
    (match act with
     | AExec _ _ => eu_processing e1 = false /\ eu_pending_read e1 = false /\ dt1 = dtal (n_eu a) (n_dt a) (ev_la hev)
     | ANone => dtal e1 dt1 (ev_la hev) = dtal (n_eu a) (n_dt a) (ev_la hev)
     | AStuck => True
     end) /\
    (n_du a = false -> fuA = fu1 /\ f5_clean fu1 = false) /\
    sb_current ebus1 = sb_current (n_ebus a).
  Proof.
    intros [HF Hok Hpr Hmiss Hdtl] Ef Ed Ee fuA.
    destruct (decode_flow5 app Happ (ev_pc hev) (rview a) _ _ _ _ _ _ HF Ef Ed) as (HI1 & Hfu1 & Hcl & Hec & Hmid).
    cbn [rview k5_eu k5_ebus] in Hmid, Hec. rewrite q_eu_view in Hmid.
    pose proof Hmid as (_ & _ & _ & Hent1).
    destruct (skm_eu_flow app _ _ _ _ _ _ _ _ _ Hent1 Hok Hmiss Ee) as (Hns & Hfl & Hok1 & Hmiss1 & Hex).
    rewrite <- Hfl in Hmid.
    assert (Hx : forall y, issue_m (n_eu a) ebus1 = Some y -> exists rest, act_q act ++ q_eu e1 ++ q_sb ebus2 = y :: rest).
    { intros y Hy. pose proof (issue_m_spec _ _ _ _ _ _ _ _ _ Ee) as Hs. rewrite Hy in Hs.
      destruct Hs as [-> | [-> Hq]]; cbn [act_q List.app]; [destruct y; eexists; reflexivity | rewrite Hq; eexists; reflexivity]. }
    destruct (assert_flow _ _ _ _ _ (n_btb a) _ Hmid Hcl Hfu1 (g_btb _ _ _ HF) Hx) as [Hmid' Hfu'].
    split; [exact HI1|]. split; [exact Hfu'|]. split; [exact Hns|]. split; [exact Hmid'|].
    split; [exact Hok1|]. split; [exact Hmiss1|]. split; [exact Hex|]. split; [|exact Hec].
    intros Edu. split; [|exact Hcl]. unfold fuA.
    destruct (issue_m (n_eu a) ebus1) as [[i pc]|] eqn:Ei; [|reflexivity]. cbn [sk5_assert].
    apply issue_m_in in Ei. rewrite Hec in Ei.
    assert (Hin : In (i, pc) (naq a)).
    { unfold naq. rewrite q_sb_cur, app_assoc. apply in_or_app. left. exact Ei. }
    pose proof (g_du _ _ _ HF) as Hdu. cbn [rview k5_du] in Hdu. rewrite view_aq, Edu in Hdu.
    apply du_ok_false in Hdu. rewrite Forall_forall in Hdu. specialize (Hdu _ Hin).
    unfold nonunc in Hdu. cbn [fst] in Hdu. rewrite Hdu. reflexivity.
  Qed.

  (* ---------------------------------------------------------------- *)
  (* the invariant is kept                                              *)

  Lemma mid_tail head x A du dbus f :
    mid_ok app head (x :: A) du dbus f -> uncond (fst x) = false -> mid_ok app (head + 4) A du dbus f.
  Proof.
    intros (HA & (g & n & Hq & Hg & Hgd) & Hdu & Hent) Hu.
    cbn [map length] in HA. rewrite consec4_S in HA. apply cons_inj in HA as [_ HA].
    split; [exact HA|]. split; [|split; [apply (du_ok_tail _ _ _ Hdu Hu) | inversion Hent; assumption]].
    exists g, n. split; [exact Hq|]. split; [exact Hg|]. intros Hd. rewrite (Hgd Hd). cbn [length]. lia.
  Qed.

  Lemma mid_head head x A du dbus f : mid_ok app head (x :: A) du dbus f -> snd x = head /\ entry_ok app x.
  Proof.
    intros (HA & _ & _ & Hent). cbn [map length] in HA. rewrite consec4_S in HA. apply cons_inj in HA as [-> _].
    split; [reflexivity | inversion Hent; assumption].
  Qed.

  Lemma mid_fresh next f du :
    0 <= next < 2147483644 -> f5_complete f = false -> f5_pc f = next ->
    du = false -> mid_ok app next [] du (dclean f sbus_empty) (to4 f).
  Proof.
    intros Hn Hc Hp ->. split; [reflexivity|]. split; [|split; [constructor; constructor | constructor]].
    exists next, O. split; [apply fq_fresh; assumption|]. split; [exact Hn | intros _; cbn [length]; lia].
  Qed.

  Lemma mid_reset next f d :
    0 <= next < 2147483644 -> mid_ok app next [] false (dclean (fu5_reset f next) d) (to4 (fu5_reset f next)).
  Proof.
    intros Hn. split; [reflexivity|]. split; [|split; [constructor; constructor | constructor]].
    exists next, O. split; [apply fq_reset|]. split; [exact Hn | intros _; cbn [length]; lia].
  Qed.

  Lemma evs_wf_tail5 ev nxt rest : evs_wf app (ev :: nxt :: rest) ->
    evs_wf app (nxt :: rest) /\ 0 <= ev_pc nxt < 2147483644.
  Proof. cbn [evs_wf]. intros (_ & _ & _ & H). split; [exact H|]. destruct H as [H _]. exact H. Qed.

  Lemma eu_ok_run e : eu_ok e -> eu_processing e = true -> eu_runner e <> None.
  Proof. intros (H & _ & _) Hp. apply H. exact Hp. Qed.

  Theorem fm5_step hev rest a a' path' dc :
    FM5 app hev a -> evs_wf app (hev :: rest) -> stores_plain app (hev :: rest) -> sh_inv5 a (hev :: rest) ->
    skm5_pre app a (hev :: rest) = M5Step a' path' dc ->
    exists hev' rest', path' = hev' :: rest' /\ FM5 app hev' a' /\ evs_wf app path' /\ stores_plain app path' /\
      sh_inv5 a' path' /\ (path' = hev :: rest \/ path' = rest).
  Proof.
    intros HF Hwf Hsp Hsh H. unfold skm5_pre in H.
    assert (Hsp' : forall nxt rest', rest = nxt :: rest' -> stores_plain app (nxt :: rest')).
    { intros nxt rest' ->. inversion Hsp; assumption. }
    destruct (fu5_cycle app (n_fu a) (n_l1i a) (n_dbus a)) as [[[fu1 l1i1] dbus1]| |] eqn:Ef; try discriminate.
    destruct (du5_cycle app (n_du a) dbus1 (n_ebus a)) as [[[du1 dbus2] ebus1]| |] eqn:Ed; try discriminate.
    cbn [hla] in H.
    destruct (skm_eu (n_eu a) ebus1 (n_pw a) (n_dt a) (ev_la hev)) as [[[e1 ebus2] dt1] act] eqn:Ee.
    destruct (frontm_flow5 hev a _ _ _ _ _ _ _ _ _ _ HF Ef Ed Ee)
      as (HI1 & Hfu1 & Hns & Hmid & Hok1 & Hmiss1 & Hex & _ & _).
    set (fuA := sk5_assert fu1 (n_btb a) (issue_m (n_eu a) ebus1)) in *.
    pose proof (h_dt _ _ _ HF) as Hdtl.
    pose proof (skm_eu_dt_len _ _ _ _ _ _ _ _ _ Hdtl Ee) as Hdt1l.
    pose proof (h_front _ _ _ HF) as HF5. pose proof (g_head _ _ _ HF5) as Hh.
    pose proof (g_pw _ _ _ HF5) as Hpw. pose proof (g_wb _ _ _ HF5) as Hwb. pose proof (g_btb _ _ _ HF5) as Hbtb.
    cbn [rview k5_pw k5_wb k5_btb] in Hpw, Hwb, Hbtb.
    cbn [sh_inv5] in Hsh. destruct Hsh as [Hsh1 Hsh2].
    destruct act as [|i pc|]; [| |discriminate].
    - (* nothing executed *)
      injection H as <- <- <-. cbn [act_q List.app] in Hmid.
      exists hev, rest. split; [reflexivity|]. split; [|split; [exact Hwf|split; [exact Hsp|split; [|auto]]]].
      + constructor; cbn [rview n_fu n_du n_l1i n_dbus n_ebus n_eu n_pw n_wb n_dt n_btb]; auto.
        * apply F5_build; simpn; auto; [apply eu_ok_run; exact Hok1 | rewrite Hpw; apply wdel_pwof; exact Hwb | discriminate].
      + cbn [sh_inv5 n_eu n_dt]. rewrite Hex. auto.
    - (* (i, pc) executed *)
      destruct Hex as (Hp1 & Hpr1 & Hdt1).
      cbn [act_q List.app] in Hmid.
      destruct (mid_head _ _ _ _ _ _ Hmid) as [Hpc _]. cbn [snd] in Hpc. subst pc.
      unfold skm5_exec in H. rewrite Z.eqb_refl in H. cbn [negb] in H.
      destruct (is_ret i); [destruct rest; discriminate|].
      destruct rest as [|nxt rest']; [discriminate|].
      destruct (evs_wf_tail5 _ _ _ Hwf) as [Hwf' Hnext].
      assert (Hadd : addS 32 (ev_pc hev) 4 = ev_pc hev + 4).
      { unfold addS. apply wrapS_id; [lia|]. apply int32_bounds. lia. }
      assert (Hq_eu : q_eu e1 = []) by (unfold q_eu; rewrite Hp1; reflexivity).
      assert (Hshn : forall e' dtn, eu_pending_read e' = false -> dtn = fst (a_get_all dt1 (ev_sa hev)) ->
                snd (a_get_all (dtal e' dtn (ev_la nxt)) (ev_sa nxt)) = true /\
                stores_hit (fst (a_get_all (dtal e' dtn (ev_la nxt)) (ev_sa nxt))) rest' = true).
      { intros e' dtn He' ->. unfold dtal. rewrite He'.
        rewrite Hdt1. cbn [stores_hit] in Hsh2. apply andb_prop in Hsh2. exact Hsh2. }
      assert (Hok_done : eu_ok e1 /\ eu_pending_read e1 = false) by auto.
      destruct (ev_sa hev) as [|s0 sa'] eqn:Esa.
      + (* not a store *)
        cbv zeta in H.
        destruct (sk5_flush (n_btb a) i (ev_pc hev) (ev_pc nxt)) eqn:Efl; injection H as <- <- <-.
        * (* flush *)
          exists nxt, rest'. split; [reflexivity|]. split; [|split; [exact Hwf'|split; [exact (Hsp' _ _ eq_refl)|split; [|auto]]]].
          -- constructor; cbn [rview n_fu n_du n_l1i n_dbus n_ebus n_eu n_pw n_wb n_dt n_btb].
             ++ apply F5_build; simpn; auto; try discriminate.
                ** cbn [eu_flushed q_eu eu_processing q_sb sbus_empty sb_current sb_pending olist List.app].
                   apply mid_fresh; auto.
                ** destruct (uncond i); [apply btb_add_ok; assumption | exact Hbtb].
             ++ unfold eu_ok, eu_flushed. cbn [eu_processing eu_pending_read eu_memory]. rewrite Hpr1.
                repeat split; try discriminate. intros _. apply Hok1. exact Hpr1.
             ++ cbn [eu_flushed eu_pending_read]. rewrite Hpr1. discriminate.
             ++ cbn [eu_flushed eu_pending_read]. rewrite Hpr1. discriminate.
             ++ exact Hdt1l.
          -- cbn [sh_inv5 n_eu n_dt]. apply Hshn; [cbn [eu_flushed eu_pending_read]; exact Hpr1 | reflexivity].
        * (* no flush *)
          unfold sk5_flush in Efl.
          destruct (uncond i) eqn:Eu.
          -- (* a jump found in the BTB: the fetch unit is redirected *)
             destruct Hmid as (_ & _ & Hdu' & _). destruct (du_ok_head_unc _ _ _ Hdu' Eu) as [HA0 _].
             rewrite Hq_eu in HA0. cbn [List.app] in HA0.
             exists nxt, rest'. split; [reflexivity|]. split; [|split; [exact Hwf'|split; [exact (Hsp' _ _ eq_refl)|split; [|auto]]]].
             ++ constructor; cbn [rview n_fu n_du n_l1i n_dbus n_ebus n_eu n_pw n_wb n_dt n_btb]; auto.
                ** apply F5_build; simpn; auto.
                   --- rewrite Hq_eu, HA0. apply mid_reset. exact Hnext.
                   --- rewrite Hp1. discriminate.
                   --- rewrite Hpw. apply wdel_add_pwof; [exact Hwb | apply write_regs_length].
                   --- intros wr Hwr. injection Hwr as <-. apply write_regs_length.
                   --- apply btb_add_ok; assumption.
                ** rewrite Hpr1. discriminate.
                ** rewrite Hpr1. discriminate.
             ++ cbn [sh_inv5 n_eu n_dt]. apply Hshn; [exact Hpr1 | reflexivity].
          -- apply negb_false_iff, Z.eqb_eq in Efl. rewrite Hadd in Efl.
             exists nxt, rest'. split; [reflexivity|]. split; [|split; [exact Hwf'|split; [exact (Hsp' _ _ eq_refl)|split; [|auto]]]].
             ++ constructor; cbn [rview n_fu n_du n_l1i n_dbus n_ebus n_eu n_pw n_wb n_dt n_btb]; auto.
                ** apply F5_build; simpn; auto.
                   --- rewrite Efl. apply (mid_tail _ _ _ _ _ _ Hmid). exact Eu.
                   --- apply eu_ok_run; exact Hok1.
                   --- rewrite Hpw. apply wdel_add_pwof; [exact Hwb | apply write_regs_length].
                   --- intros wr Hwr. injection Hwr as <-. apply write_regs_length.
                ** rewrite Hpr1. discriminate.
                ** rewrite Hpr1. discriminate.
             ++ cbn [sh_inv5 n_eu n_dt]. apply Hshn; [exact Hpr1 | reflexivity].
      + (* a store that hits; the next pc is pc + 4 *)
        destruct (snd (a_get_all dt1 (s0 :: sa'))) eqn:Ehit; cbn [andb] in H; [|discriminate].
        destruct (Z.eqb_spec (ev_pc nxt) (addS 32 (ev_pc hev) 4)) as [Enx|]; [|discriminate].
        rewrite Hadd in Enx.
        injection H as <- <- <-.
        pose proof (mid_head _ _ _ _ _ _ Hmid) as [_ [_ Hi]]. cbn [fst snd] in Hi.
        exists nxt, rest'. split; [reflexivity|]. split; [|split; [exact Hwf'|split; [exact (Hsp' _ _ eq_refl)|split; [|auto]]]].
        * constructor; cbn [rview n_fu n_du n_l1i n_dbus n_ebus n_eu n_pw n_wb n_dt n_btb]; auto.
          -- apply F5_build; simpn; auto.
             ++ rewrite Enx. apply (mid_tail _ _ _ _ _ _ Hmid). cbn [fst].
                (* a store is not an unconditional jump: from the well-formedness of the events *)
                apply Forall_inv in Hsp. apply Hsp; [rewrite Esa; discriminate | exact Hi].
             ++ apply eu_ok_run; exact Hok1.
             ++ rewrite Hpw. apply wdel_pwof. exact Hwb.
             ++ discriminate.
          -- rewrite Hpr1. discriminate.
          -- change (zlen (fst (a_get_all dt1 (s0 :: sa'))) <= 16). rewrite a_get_all_len. exact Hdt1l.
        * cbn [sh_inv5 n_eu n_dt]. apply Hshn; [exact Hpr1 | reflexivity].
  Qed.

  (* ---------------------------------------------------------------- *)
  (* progress                                                           *)

  Definition phim5 (a : skm5) : Z := phim (projm a).

  (* when the decode unit is not stalled, the MVP-5 skeleton satisfies the MVP-4 invariant *)
  Lemma projm_finvm hev a : FM5 app hev a -> n_du a = false -> FInvM app hev (projm a).
  Proof.
    intros [HF (Hproc & Hpp & Hmem) Hpr Hmiss Hdtl] Edu.
    pose proof (proj_finv app (ev_pc hev) (rview a) HF Edu) as [Hh Hq Hent _ _ _ HI Hpw Hwb].
    pose proof (g_fu _ _ _ HF) as Hfu.
    constructor; cbn [projm m_fu m_l1i m_dbus m_ebus m_eu m_pw m_wb m_dt]; auto.
  Qed.

  Lemma phim5_bounds hev a : FM5 app hev a -> 0 <= phim5 a <= phim_max.
  Proof.
    intros [HF (Hproc & Hpp & Hmem) Hpr Hmiss Hdtl].
    pose proof (fuphi_bounds (to4 (n_fu a)) (g_fu _ _ _ HF)) as Hf.
    unfold phim5, phim, projm, phim_max. cbn [m_fu m_l1i m_dbus m_ebus m_eu m_pw m_wb m_dt]. destruct (eu_processing (n_eu a)).
    - destruct (Hproc eq_refl) as [Hr _]. unfold Cmax, Rmax, MemoryAccess in *.
      destruct (eu_pending_read (n_eu a)), (n_wb a); lia.
    - unfold Cmax, Rmax, MemoryAccess in *.
      destruct (sb_current (n_ebus a)), (sb_pending (n_ebus a)), (sb_current (dclean (n_fu a) (n_dbus a))),
        (sb_pending (dclean (n_fu a) (n_dbus a))); lia.
  Qed.

  Lemma completem_exit5 hev rest a : FM5 app hev a -> skm5_complete a = true -> evs_wf app (hev :: rest) ->
    rest = [] /\ nlen app <= ev_pc hev / 4.
  Proof.
    intros HF Hc Hwf. pose proof (complete_out5 app (ev_pc hev) (rview a) (h_front _ _ _ HF) Hc) as Hout.
    split; [|exact Hout].
    destruct rest as [|nxt r]; [reflexivity|]. exfalso.
    pose proof (g_head _ _ _ (h_front _ _ _ HF)) as Hh.
    cbn [evs_wf] in Hwf. destruct Hwf as (_ & (i & Hi & _) & _).
    assert ((Z.to_nat (ev_pc hev / 4) < length app)%nat) by (apply nth_error_Some; congruence).
    unfold nlen in Hout. lia.
  Qed.

  Lemma skm5_pre_exec hev rest a fu1 l1i1 dbus1 du1 dbus2 ebus1 e1 ebus2 dt1 i pc :
    FM5 app hev a -> evs_wf app (hev :: rest) -> sh_inv5 a (hev :: rest) ->
    fu5_cycle app (n_fu a) (n_l1i a) (n_dbus a) = Ok (fu1, l1i1, dbus1) ->
    du5_cycle app (n_du a) dbus1 (n_ebus a) = Ok (du1, dbus2, ebus1) ->
    skm_eu (n_eu a) ebus1 (n_pw a) (n_dt a) (ev_la hev) = (e1, ebus2, dt1, AExec i pc) ->
    match skm5_pre app a (hev :: rest) with
    | M5Stuck => False
    | M5Fin _ _ => rest = []
    | M5Step _ path' _ => path' = rest
    end.
  Proof.
    intros HF Hwf Hsh Ef Ed Ee.
    destruct (frontm_flow5 hev a _ _ _ _ _ _ _ _ _ _ HF Ef Ed Ee) as (_ & _ & _ & Hmid & _ & _ & Hex & _).
    destruct Hex as (_ & _ & Hdt1).
    cbn [act_q List.app] in Hmid. destruct (mid_head _ _ _ _ _ _ Hmid) as [Hpc [_ Hi]]. cbn [fst snd] in Hpc, Hi. subst pc.
    unfold skm5_pre. rewrite Ef, Ed. cbn [hla]. rewrite Ee. unfold skm5_exec. rewrite Z.eqb_refl. cbn [negb].
    pose proof (g_head _ _ _ (h_front _ _ _ HF)) as Hh.
    cbn [evs_wf] in Hwf. destruct Hwf as (_ & Hwf). rewrite Hi in Hwf.
    destruct rest as [|nxt r].
    - rewrite Hwf. reflexivity.
    - destruct Hwf as ((i' & Hi' & Hr) & Hst & _). injection Hi' as <-. rewrite Hr.
      cbn [sh_inv5] in Hsh. destruct Hsh as [Hsh1 _].
      destruct (ev_sa hev) as [|s0 sa'] eqn:Esa.
      + cbv zeta. destruct (sk5_flush (n_btb a) i (ev_pc hev) (ev_pc nxt)); reflexivity.
      + rewrite Hdt1, Hsh1. rewrite (Hst ltac:(discriminate)).
        assert (Hadd : addS 32 (ev_pc hev) 4 = ev_pc hev + 4).
        { unfold addS. apply wrapS_id; [lia|]. apply int32_bounds. lia. }
        rewrite Hadd, Z.eqb_refl. reflexivity.
  Qed.

  Definition after_nonem5 (a : skm5) fuA du1 l1i1 dbus2 ebus2 e1 dt1 : skm5 :=
    mk_skm5 fuA du1 l1i1 dbus2 ebus2 e1 (wdel (n_pw a) (n_wb a)) None dt1 (n_btb a).

  Lemma skm5_pre_none hev rest a fu1 l1i1 dbus1 du1 dbus2 ebus1 e1 ebus2 dt1 :
    fu5_cycle app (n_fu a) (n_l1i a) (n_dbus a) = Ok (fu1, l1i1, dbus1) ->
    du5_cycle app (n_du a) dbus1 (n_ebus a) = Ok (du1, dbus2, ebus1) ->
    skm_eu (n_eu a) ebus1 (n_pw a) (n_dt a) (ev_la hev) = (e1, ebus2, dt1, ANone) ->
    skm5_pre app a (hev :: rest) =
      M5Step (after_nonem5 a (sk5_assert fu1 (n_btb a) (issue_m (n_eu a) ebus1)) du1 l1i1 dbus2 ebus2 e1 dt1) (hev :: rest) 1.
  Proof. intros Ef Ed Ee. unfold skm5_pre. rewrite Ef, Ed. cbn [hla]. rewrite Ee. reflexivity. Qed.

  (* stalled decode unit: the decoded part is not empty and only it moves *)
  Lemma nonem_phi5_stalled hev a fuA l1i1 dbus2 e1 ebus2 dt1 :
    FM5 app hev a -> n_du a = true ->
    skm_eu (n_eu a) (n_ebus a) (n_pw a) (n_dt a) (ev_la hev) = (e1, ebus2, dt1, ANone) ->
    phim5 (after_nonem5 a fuA true l1i1 dbus2 ebus2 e1 dt1) < phim5 a.
  Proof.
    intros HF Edu Ee.
    destruct a as [f du l1i dbus ebus e pw wb dt btb]. simpn.
    destruct HF as [HF5 (Heu & Hpp & Hmem) Hpr Hmiss Hdtl]. simpn.
    pose proof (g_du _ _ _ HF5) as Hdu. pose proof (g_pw _ _ _ HF5) as Hpw.
    unfold aq in Hdu. cbn [rview k5_du k5_eu k5_ebus k5_pw k5_wb] in Hdu, Hpw. simpn. rewrite q_eu_view in Hdu. subst du.
    apply du_ok_true in Hdu.
    unfold phim5, phim, projm, after_nonem5. simpn. cbn [m_fu m_l1i m_dbus m_ebus m_eu m_pw m_wb m_dt].
    destruct (eu_pending_read e) eqn:Epr.
    { (* a load in flight *)
      pose proof (Hpp eq_refl) as Hp. rewrite Hp. destruct (Heu Hp) as [Hr Hrun].
      unfold skm_eu in Ee. rewrite Epr in Ee.
      destruct (Z.eqb_spec (eu_remaining e - 1) 0); cbn [negb] in Ee.
      - destruct (eu_runner e) as [[i pc]|]; discriminate.
      - injection Ee as <- <- <-. cbn [set_rem eu_processing eu_pending_read eu_remaining]. rewrite Hp, Epr. lia. }
    assert (Hsk : skm_eu e ebus pw dt (ev_la hev) =
              let '(e1, ebus1', have) := eu_intake e ebus in
              if negb have then (e1, ebus1', dt, ANone) else
              let rem := eu_remaining e1 - 1 in
              if negb (rem =? 0) then (set_rem e1 rem, ebus1', dt, ANone) else
              match eu_runner e1 with
              | None => (e1, ebus1', dt, AStuck)
              | Some (i, pc) =>
                  if pw_hazard pw (instr_ReadRegisters i) then (set_rem e1 1, ebus1', dt, ANone)
                  else match ev_la hev with
                       | _ :: _ =>
                           if snd (a_get_all dt (ev_la hev))
                           then (mk_eu (eu_processing e1) true (eu_addrs e1) (Some []) L1Access (eu_runner e1), ebus1',
                                 fst (a_get_all dt (ev_la hev)), ANone)
                           else (mk_eu (eu_processing e1) true (ev_la hev) (eu_memory e1) MemoryAccess (eu_runner e1), ebus1',
                                 fst (a_get_all dt (ev_la hev)), ANone)
                       | [] => (eu_done (set_rem e1 rem), ebus1', dt, AExec i pc)
                       end
              end) by (unfold skm_eu; rewrite Epr; reflexivity).
    pose proof Ee as Ee0. rewrite Hsk in Ee. clear Hsk.
    destruct (eu_processing e) eqn:Ep.
    - (* the execute unit is counting down *)
      unfold eu_intake in Ee. rewrite Ep in Ee. cbn [negb] in Ee. destruct (Heu eq_refl) as [Hr Hrun].
      destruct (Z.eqb_spec (eu_remaining e - 1) 0); cbn [negb] in Ee.
      + destruct (eu_runner e) as [[i pc]|]; [|congruence].
        destruct (pw_hazard pw (instr_ReadRegisters i)) eqn:Ehz.
        * injection Ee as <- <- <-. cbn [set_rem eu_processing eu_pending_read eu_remaining]. rewrite Ep, Epr.
          subst pw. apply pwof_hazard in Ehz. destruct wb; [lia | congruence].
        * destruct (ev_la hev) as [|a0 la']; [discriminate|].
          destruct (snd (a_get_all dt (a0 :: la'))); injection Ee as <- <- <-;
            cbn [eu_processing eu_pending_read eu_remaining]; rewrite Ep; unfold L1Access, Rmax, MemoryAccess; destruct wb; lia.
      + injection Ee as <- <- <-. cbn [set_rem eu_processing eu_pending_read eu_remaining]. rewrite Ep, Epr. destruct wb; lia.
    - destruct ebus as [ep ec]. cbn [sb_current sb_pending] in *.
      destruct ec as [[i pc]|].
      + (* the head is in the execute bus, current slot *)
        unfold eu_intake, sbus_get in Ee. rewrite Ep in Ee.
        cbn [sb_current sb_pending negb eu_remaining eu_runner eu_processing eu_addrs eu_memory] in Ee.
        pose proof (cyc_of_bounds i) as Hc.
        destruct (Z.eqb_spec (cyc_of i - 1) 0); cbn [negb] in Ee.
        * destruct (pw_hazard pw (instr_ReadRegisters i)).
          -- injection Ee as <- <- <-. cbn [set_rem eu_processing eu_pending_read eu_remaining]. unfold Cmax, Rmax, MemoryAccess. lia.
          -- destruct (ev_la hev) as [|a0 la']; [discriminate|].
             destruct (snd (a_get_all dt (a0 :: la'))); injection Ee as <- <- <-;
               cbn [eu_processing eu_pending_read eu_remaining]; unfold L1Access, Cmax, Rmax, MemoryAccess; lia.
        * injection Ee as <- <- <-. cbn [set_rem eu_processing eu_pending_read eu_remaining]. unfold Cmax, Rmax, MemoryAccess in *. lia.
      + rewrite (skm_eu_idle_none e (mk_sbus ep None) pw dt _ Epr Ep eq_refl) in Ee0. injection Ee0 as <- <- <-. rewrite Ep.
        cbn [sb_current sb_pending].
        destruct ep as [x|]; [lia|]. exfalso. apply Hdu. unfold q_eu, q_sb. rewrite Ep. reflexivity.
  Qed.

  Lemma exec_count_cons5 ev path : exec_count app (ev :: path) =
    Nat.add (if ev_pc ev / 4 <? nlen app then 1%nat else 0%nat) (exec_count app path).
  Proof. apply exec_count_cons. Qed.

  Theorem skm5_progress hev rest a :
    FM5 app hev a -> evs_wf app (hev :: rest) -> stores_plain app (hev :: rest) -> sh_inv5 a (hev :: rest) ->
    match skm5_cycle app a (hev :: rest) with
    | M5Stuck => False
    | M5Fin dc _ => (exec_count app (hev :: rest) <= 1)%nat
    | M5Step a' path' _ => path' = rest \/ (path' = hev :: rest /\ phim5 a' < phim5 a)
    end.
  Proof.
    intros HF Hwf Hsp Hsh.
    assert (Hpre : match skm5_pre app a (hev :: rest) with
                   | M5Stuck => False
                   | M5Fin _ _ => rest = []
                   | M5Step a' path' _ => path' = rest \/
                       (path' = hev :: rest /\ (skm5_complete a' = false -> phim5 a' < phim5 a))
                   end).
    { pose proof (h_front _ _ _ HF) as HF5.
      pose proof HF5 as [Hh HA (g & n & Hq & Hg & Hgd) Hdu Hent Hfu _ _ HI Hpw Hwb Hbtb].
      cbn [rview k5_fu k5_du k5_l1i k5_dbus k5_ebus] in *.
      assert (Hfok : exists fu1 l1i1 dbus1, fu5_cycle app (n_fu a) (n_l1i a) (n_dbus a) = Ok (fu1, l1i1, dbus1)).
      { rewrite fu5_cycle_to4.
        destruct (fu_cycle_spec app (to4 (n_fu a)) (n_l1i a) (dclean (n_fu a) (n_dbus a)) HI) as (f' & c' & d' & E & _).
        - intros Hc. rewrite (q_pc _ _ _ _ _ Hq Hc). pose proof (nlen_small app Happ). destruct n as [|n]; [lia|].
          pose proof (q_in1 _ _ _ _ _ Hq ltac:(lia) Hc). lia.
        - exact Hfu.
        - rewrite E. eauto. }
      destruct Hfok as (fu1 & l1i1 & dbus1 & Ef).
      assert (Hdok : exists du1 dbus2 ebus1, du5_cycle app (n_du a) dbus1 (n_ebus a) = Ok (du1, dbus2, ebus1)).
      { destruct (n_du a); [rewrite du5_stalled; eauto|].
        pose proof (fu5_cycle_inv _ _ _ _ _ _ _ Ef) as [Ef4 _].
        destruct (fq_fu app Happ g n [] _ _ _ _ _ _ Hg Hq HI Hfu Ef4) as (_ & _ & [n1 Hq1] & _). cbn [List.app] in Hq1.
        destruct (du5_cycle_spec app dbus1 (n_ebus a)) as (du' & d' & e' & E & _); [|eauto].
        intros p Hp. apply (consec4_nonneg g n1); [lia|]. rewrite <- (q_eq _ _ _ _ _ Hq1).
        unfold q_sb. rewrite Hp. left. reflexivity. }
      destruct Hdok as (du1 & dbus2 & ebus1 & Ed).
      destruct (skm_eu (n_eu a) ebus1 (n_pw a) (n_dt a) (ev_la hev)) as [[[e1 ebus2] dt1] act] eqn:Ee.
      destruct act as [|i pc|].
      - rewrite (skm5_pre_none hev rest a _ _ _ _ _ _ _ _ _ Ef Ed Ee).
        right. split; [reflexivity|]. intros Hnc.
        destruct (n_du a) eqn:Edu.
        + rewrite du5_stalled in Ed. injection Ed as <- <- <-. eapply nonem_phi5_stalled; eassumption.
        + assert (Ed' : du5_cycle app (n_du a) dbus1 (n_ebus a) = Ok (du1, dbus2, ebus1)) by (rewrite Edu; exact Ed).
          destruct (frontm_flow5 hev a _ _ _ _ _ _ _ _ _ _ HF Ef Ed' Ee) as (_ & _ & _ & _ & _ & _ & _ & Hnr & _).
          destruct (Hnr Edu) as [Hnr1 Hcl]. rewrite Hnr1 in *.
          pose proof (fu5_cycle_inv _ _ _ _ _ _ _ Ef) as [Ef4 _].
          destruct (du5_false _ _ _ _ _ _ Ed) as [Ed4 _].
          pose proof (nonem_phi app Happ hev (projm a) (to4 fu1) l1i1 dbus1 dbus2 ebus1 e1 ebus2 dt1
                        (projm_finvm hev a HF Edu) Ef4 Ed4 Ee) as Hphi.
          unfold phim5. unfold projm at 1, after_nonem5. simpn.
          unfold dclean at 1. rewrite Hcl. apply Hphi.
          unfold skm5_complete, after_nonem5 in Hnc. simpn. exact Hnc.
      - pose proof (skm5_pre_exec hev rest a _ _ _ _ _ _ _ _ _ _ _ HF Hwf Hsh Ef Ed Ee) as H.
        destruct (skm5_pre app a (hev :: rest)); auto.
      - destruct (frontm_flow5 hev a _ _ _ _ _ _ _ _ _ _ HF Ef Ed Ee) as (_ & _ & Hns & _). congruence. }
    unfold skm5_cycle.
    destruct (skm5_pre app a (hev :: rest)) as [a2 p dc|dc dt|] eqn:Ep; [| |contradiction].
    - destruct (fm5_step hev rest a a2 p dc HF Hwf Hsp Hsh Ep) as (hev' & rest' & -> & HF' & Hwf' & _ & _ & _).
      destruct (skm5_complete a2) eqn:Ec.
      + destruct (completem_exit5 hev' rest' a2 HF' Ec Hwf') as [-> Hout].
        destruct Hpre as [Hp | [Hp _]].
        * subst rest. rewrite exec_count_cons5, (exec_count_out app hev' Hout). destruct (_ <? _); lia.
        * injection Hp as -> <-. rewrite (exec_count_out app hev Hout). lia.
      + destruct Hpre as [Hp | [Hp Hphi]]; [left; exact Hp | right; split; [exact Hp | apply Hphi; reflexivity]].
    - subst rest. rewrite exec_count_cons5. unfold exec_count. cbn [filter length]. destruct (_ <? _); lia.
  Qed.

  Lemma skm5_cycle_dc a path :
    match skm5_cycle app a path with
    | M5Fin dc _ => dc = 1 \/ dc = 2
    | M5Step _ _ dc => dc = 1 \/ dc = 2
    | M5Stuck => True
    end.
  Proof.
    assert (Hpre : match skm5_pre app a path with
                   | M5Fin dc _ => dc = 1
                   | M5Step _ _ dc => dc = 1 \/ dc = 2
                   | M5Stuck => True
                   end).
    { unfold skm5_pre.
      destruct (fu5_cycle app (n_fu a) (n_l1i a) (n_dbus a)) as [[[fu1 l1i1] dbus1]| |]; try exact I.
      destruct (du5_cycle app (n_du a) dbus1 (n_ebus a)) as [[[du1 dbus2] ebus1]| |]; try exact I.
      destruct (skm_eu (n_eu a) ebus1 (n_pw a) (n_dt a) _) as [[[e1 ebus2] dt1] act].
      destruct act as [|i pc|]; try exact I; auto. unfold skm5_exec.
      destruct path as [|ev rest]; try exact I. destruct (negb (ev_pc ev =? pc)); try exact I.
      destruct (is_ret i); [destruct rest; auto|]. destruct rest as [|nxt r]; try exact I.
      destruct (ev_sa ev).
      - cbv zeta. destruct (sk5_flush (n_btb a) i pc (ev_pc nxt)); auto.
      - destruct (_ && _); auto. }
    unfold skm5_cycle. destruct (skm5_pre app a path) as [a2 p dc|dc dt|]; auto.
    destruct (skm5_complete a2); auto.
  Qed.

  Lemma skm5_cycle_fin_dt hev rest a dc dt :
    FM5 app hev a -> evs_wf app (hev :: rest) -> stores_plain app (hev :: rest) -> sh_inv5 a (hev :: rest) ->
    skm5_cycle app a (hev :: rest) = M5Fin dc dt -> zlen dt <= 16.
  Proof.
    intros HF Hwf Hsp Hsh H. unfold skm5_cycle in H.
    destruct (skm5_pre app a (hev :: rest)) as [a2 p d|d t|] eqn:Ep; [| |discriminate].
    - destruct (fm5_step hev rest a a2 p d HF Hwf Hsp Hsh Ep) as (hev' & rest' & _ & HF' & _).
      destruct (skm5_complete a2); [|discriminate]. injection H as _ <-. exact (h_dt _ _ _ HF').
    - injection H as _ <-. unfold skm5_pre in Ep.
      destruct (fu5_cycle app (n_fu a) (n_l1i a) (n_dbus a)) as [[[fu1 l1i1] dbus1]| |]; try discriminate.
      destruct (du5_cycle app (n_du a) dbus1 (n_ebus a)) as [[[du1 dbus2] ebus1]| |]; try discriminate.
      cbn [hla] in Ep.
      destruct (skm_eu (n_eu a) ebus1 (n_pw a) (n_dt a) (ev_la hev)) as [[[e1 ebus2] dt1] act] eqn:Ee.
      pose proof (skm_eu_dt_len _ _ _ _ _ _ _ _ _ (h_dt _ _ _ HF) Ee) as Hl.
      destruct act as [|i pc|]; try discriminate. unfold skm5_exec in Ep.
      destruct (negb (ev_pc hev =? pc)); try discriminate.
      destruct (is_ret i).
      + destruct rest; [injection Ep as _ <-; exact Hl | discriminate].
      + destruct rest as [|nxt r]; try discriminate. destruct (ev_sa hev).
        * cbv zeta in Ep. destruct (sk5_flush (n_btb a) i pc (ev_pc nxt)); discriminate.
        * destruct (_ && _); discriminate.
  Qed.

  Lemma skm5_run_term : forall (m : nat) rest a hev cyc fuel,
    FM5 app hev a -> evs_wf app (hev :: rest) -> stores_plain app (hev :: rest) -> sh_inv5 a (hev :: rest) ->
    (Z.to_nat (phim5 a) + length rest * Kstepm <= m)%nat -> (m < fuel)%nat ->
    exists c, skm5_run fuel app a (hev :: rest) cyc = Some c /\
              cyc + Z.of_nat (exec_count app (hev :: rest)) <= c <= cyc + 2 * (Z.of_nat m + 1) + MemoryAccess * 16.
  Proof.
    induction m as [m IH] using lt_wf_ind. intros rest a hev cyc fuel HF Hwf Hsp Hsh Hm Hfuel.
    destruct fuel as [|f]; [lia|]. cbn [skm5_run].
    pose proof (skm5_progress hev rest a HF Hwf Hsp Hsh) as Hp.
    pose proof (skm5_cycle_dc a (hev :: rest)) as Hdc.
    pose proof (phim5_bounds hev a HF) as Hphi.
    destruct (skm5_cycle app a (hev :: rest)) as [a' path' dc|dc dt|] eqn:Ec; [| |contradiction].
    - assert (Epre : skm5_pre app a (hev :: rest) = M5Step a' path' dc).
      { unfold skm5_cycle in Ec. destruct (skm5_pre app a (hev :: rest)) as [a2 p d|d t|]; try discriminate.
        destruct (skm5_complete a2); [discriminate | exact Ec]. }
      destruct (fm5_step hev rest a a' path' dc HF Hwf Hsp Hsh Epre) as (hev' & rest' & -> & HF' & Hwf' & Hsp' & Hsh' & _).
      pose proof (phim5_bounds hev' a' HF') as Hphi'.
      destruct Hp as [Hp | [Hp Hlt]].
      + subst rest. cbn [length] in Hm.
        assert (Hk : (S (length rest') * Kstepm = Kstepm + length rest' * Kstepm)%nat) by reflexivity.
        assert (Hm1 : (1 <= m)%nat) by (unfold Kstepm in *; lia).
        assert (Hm' : (Z.to_nat (phim5 a') + length rest' * Kstepm <= m - 1)%nat) by (unfold Kstepm in *; lia).
        destruct (IH (m - 1)%nat ltac:(lia) rest' a' hev' (cyc + dc) f HF' Hwf' Hsp' Hsh' Hm' ltac:(lia)) as (c & Hc & Hb).
        exists c. split; [exact Hc|]. rewrite (exec_count_cons5 hev). destruct (_ <? _); lia.
      + injection Hp as -> ->.
        assert (Hm' : (Z.to_nat (phim5 a') + length rest * Kstepm <= m - 1)%nat) by lia.
        destruct (IH (m - 1)%nat ltac:(lia) rest a' hev (cyc + dc) f HF' Hwf' Hsp' Hsh' Hm' ltac:(lia)) as (c & Hc & Hb).
        exists c. split; [exact Hc|]. lia.
    - pose proof (skm5_cycle_fin_dt hev rest a dc dt HF Hwf Hsp Hsh Ec) as Hdl.
      eexists. split; [reflexivity|]. assert (0 <= MemoryAccess * zlen dt <= MemoryAccess * 16) by (unfold MemoryAccess, zlen in *; lia). lia.
  Qed.
End FrontM5.
