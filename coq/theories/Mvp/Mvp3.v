(* H: faithful cycle-level model of proc/mvp3/cpu.go + proc/mvp3/mmu.go (the
   sequential variant with L1I and L1D LRU caches), built on the model of
   comp.LRUCache (Comp/Cache.v, proved in Props/C13.v) and on the generated
   instruction model.  One Gallina step per iteration of the Go Run loop; every
   cache operation is the modelled one, in the order the Go code performs it. *)
From Coq Require Import ZArith List Bool Lia.
From Maj Require Import Base.Outcome Base.GoInt Base.GoTypes Isa.Spec Isa.Seq.
From Maj Require Import Gen.Latency Gen.RiscTables Gen.Opcodes Comp.Cache Mvp.Mvp12.
Import ListNotations.
Open Scope Z_scope.

Definition l1LineSize : Z := 64.     (* l1ICacheLineSize = l1DCacheLineSize = 64 *)
Definition l1Size : Z := 1024.       (* l1ICacheSize = l1DCacheSize = 1 KB *)

(* getFromL1I / getFromL1D: for _, addr := range addrs { v, exists := c.Get(addr); if !exists return nil,false } *)
Fixpoint get_all (c : cache) (addrs : list Z) (acc : list Z) : outcome (cache * option (list Z)) :=
  match addrs with
  | [] => Ok (c, Some (rev acc))
  | a :: t =>
      r <- get c a ;;
      match r with
      | (c', Some v) => get_all c' t (v :: acc)
      | (c', None) => Ok (c', None)
      end
  end.

(* fetchCacheLine(addr): aligned; bytes past the end of memory read as 0; a
   negative index is a Go panic *)
Definition fetch_cache_line (mem : list Z) (addr : Z) : outcome (list Z) :=
  let base := subS 32 addr (remS 32 addr l1LineSize) in
  if base <? 0 then Panic
  else Ok (map (fun i => let a := base + Z.of_nat i in
                         if a <? Z.of_nat (length mem) then nth (Z.to_nat a) mem 0 else 0)
               (seq 0 (Z.to_nat l1LineSize))).

(* writeToMemory(addr, data): stops at the end of memory; negative index panics *)
Fixpoint write_to_memory (mem : list Z) (addr : Z) (d : list Z) : outcome (list Z) :=
  match d with
  | [] => Ok mem
  | v :: t =>
      if Z.of_nat (length mem) <=? addr then Ok mem
      else if addr <? 0 then Panic
      else write_to_memory (mset mem addr v) (addr + 1) t
  end.

(* pushLineToL1D(addr, line) *)
Definition push_line_to_l1d (c : cache) (mem : list Z) (addr : Z) (ln : list Z) : outcome (cache * list Z) :=
  let base := subS 32 addr (remS 32 addr l1LineSize) in
  r <- push_line_warn c base ln ;;
  match r with
  | (c', None) => Ok (c', mem)
  | (c', Some victim) =>
      mem' <- write_to_memory mem (lo victim) (data victim) ;;
      r2 <- evict_cache_line c' (lo victim) ;;
      Ok (fst r2, mem')
  end.

(* mmu.flush(): for every resident line MemoryAccess cycles and a write-back *)
Fixpoint flush_lines (ls : list line) (mem : list Z) (cycles : Z) : outcome (list Z * Z) :=
  match ls with
  | [] => Ok (mem, cycles)
  | l :: t => mem' <- write_to_memory mem (lo l) (data l) ;; flush_lines t mem' (cycles + MemoryAccess)
  end.

Record m3state := mk_m3 { m3_regs : list Z; m3_mem : list Z; m3_cycle : Z; m3_l1i : cache; m3_l1d : cache }.

Fixpoint sort_changes (l : list (Z * Z)) : list (Z * Z) :=
  let fix ins (x : Z * Z) (s : list (Z * Z)) :=
      match s with
      | [] => [x]
      | y :: t => if fst x <=? fst y then x :: y :: t else y :: ins x t
      end in
  match l with [] => [] | x :: t => ins x (sort_changes t) end.

Definition finish3 (s : m3state) : mres :=
  match flush_lines (lines (m3_l1d s)) (m3_mem s) 0 with
  | Ok (mem', c) => MDone (m3_cycle s + c) (mk_arch (m3_regs s) mem')
  | _ => MPanic
  end.

Fixpoint m3run (fuel : nat) (app : list instr) (labels : Z -> option Z) (s : m3state) (pc : Z) : mres :=
  match fuel with
  | O => MOutOfFuel
  | S f =>
      if Z.quot pc 4 <? Z.of_nat (length app) then
        (* fetchInstruction *)
        match get_all (m3_l1i s) [pc] [] with
        | Ok (l1i1, hit) =>
            match (match hit with
                   | Some _ => Ok (l1i1, L1Access)
                   | None => r <- push_line l1i1 pc (repeat 0 (Z.to_nat l1LineSize)) ;; Ok (fst r, MemoryAccess)
                   end) with
            | Ok (l1i2, c1) =>
                if Z.quot pc 4 <? 0 then MPanic else
                match nth_error app (Z.to_nat (Z.quot pc 4)) with
                | None => MPanic
                | Some i =>
                    let rr := rget (m3_regs s) in
                    let addrs := instr_MemoryRead i rr 0 in
                    (* execute: memory read through L1D *)
                    match (match addrs with
                           | [] => Ok (m3_l1d s, m3_mem s, [], 0)
                           | a0 :: _ =>
                               r <- get_all (m3_l1d s) addrs [] ;;
                               match r with
                               | (d1, Some bytes) => Ok (d1, m3_mem s, bytes, L1Access)
                               | (d1, None) =>
                                   ln <- fetch_cache_line (m3_mem s) a0 ;;
                                   r2 <- push_line_to_l1d d1 (m3_mem s) a0 ln ;;
                                   r3 <- get_all (fst r2) addrs [] ;;
                                   match r3 with
                                   | (d3, Some bytes) => Ok (d3, snd r2, bytes, L1Access + MemoryAccess)
                                   | (_, None) => Panic          (* panic("cache line doesn't exist") *)
                                   end
                               end
                           end) with
                    | Ok (l1d1, mem1, bytes, c2) =>
                        match instr_Run i rr labels pc bytes 0 with
                        | Panic => MPanic
                        | Err e => MErr e
                        | Ok exe =>
                            match InstructionType_Cycles (instr_InstructionType i) with
                            | Ok c3 =>
                                let cycle' := m3_cycle s + c1 + cyclesDecode + c2 + c3 in
                                if Return exe then finish3 (mk_m3 (m3_regs s) mem1 cycle' l1i2 l1d1) else
                                let pc' := if PcChange exe then NextPc exe else addS 32 pc 4 in
                                if RegisterChange exe then
                                  m3run f app labels
                                        (mk_m3 (rset (m3_regs s) (Register exe) (RegisterValue exe)) mem1
                                               (cycle' + RegisterAccess) l1i2 l1d1) pc'
                                else if MemoryChange exe then
                                  (* doesExecutionMemoryChangesExistsInL1D + writeExecutionMemoryChangesToL1D / WriteMemory *)
                                  match get_all l1d1 (map fst (MemoryChanges exe)) [] with
                                  | Ok (d2, Some _) =>
                                      let ch := sort_changes (MemoryChanges exe) in
                                      match ch with
                                      | [] => MPanic        (* changes[0] on an empty slice *)
                                      | (a0, _) :: _ =>
                                          match write d2 a0 (map snd ch) with
                                          | Ok d3 => m3run f app labels (mk_m3 (m3_regs s) mem1 (cycle' + L1Access) l1i2 d3) pc'
                                          | _ => MPanic
                                          end
                                      end
                                  | Ok (d2, None) =>
                                      if negb (forallb (in_mem mem1) (map fst (MemoryChanges exe))) then MPanic
                                      else m3run f app labels
                                                 (mk_m3 (m3_regs s) (mset_all mem1 (MemoryChanges exe)) (cycle' + MemoryAccess) l1i2 d2) pc'
                                  | _ => MPanic
                                  end
                                else m3run f app labels (mk_m3 (m3_regs s) mem1 cycle' l1i2 l1d1) pc'
                            | _ => MPanic
                            end
                        end
                    | _ => MPanic
                    end
                end
            | _ => MPanic
            end
        | _ => MPanic
        end
      else finish3 s
  end.

Definition mvp3_run (fuel : nat) (app : list instr) (labels : Z -> option Z) (st : arch) : mres :=
  match new_cache l1LineSize l1Size, new_cache l1LineSize l1Size with
  | Ok ci, Ok cd => m3run fuel app labels (mk_m3 (regs st) (mem st) 0 ci cd) 0
  | _, _ => MPanic
  end.
