(* Lock-step simulation MVP-8.0 / MVP-6.3 on programs without loads and stores: definitions and the per-unit
   lemmas for the execute units UNDER EXPLICIT HYPOTHESES (the unconditional statement is false:
   Mvp80Sim63Refute.v).

   Projection: eu_of maps an execute unit of MVP-8.0 (HNone / HPrepare) to the unit of MVP-6.3 (ENone / EPrepare)
   with the same memory, runner and sequence id; the machine y_x is shared (type mx).
   Hypotheses of the unit lemmas (conditions over the MVP-8.0 state at the call):
     rd_agree   : registerRead of MVP-8.0 on behalf of the runner's sequence id returns what the newest-slot read
                  of MVP-6.3 returns, for every register (difference (a));
     eu_pending8 = false when the Pre hook fires (difference (b));
     y_pref = [] (no runner has an execution-unit preference: difference (c)).
   Conclusions are EQUATIONS  eu_xxx3 .. (y_x y) (eu_of e) = (false, lift8 (eu_xxx8 .. y i e)). *)
From Coq Require Import ZArith List Bool Lia.
From Maj Require Import Base.Outcome Base.GoInt Base.GoTypes Isa.Spec Isa.Seq.
From Maj Require Import Gen.Latency Gen.RiscTables Gen.Opcodes Comp.Cache Comp.Rat Mvp.Mvp12 Mvp.Mvp3 Mvp.Mvp5 Mvp.Mvp60 Mvp.Mvp63 Mvp.Mvp80.
From Maj Require Import Mvp.Mvp60Proofs Mvp.Mvp63Proofs Mvp.Mvp80Proofs Mvp.Mvp80RegOnly Mvp.Mvp80RegOnly63.
From Maj Require Mvp.Mvp62RefRel.
Import ListNotations.
Open Scope Z_scope.

(* ------------------------------------------------------------------ *)
(* projection                                                           *)
(* ------------------------------------------------------------------ *)

Definition co_of (c : eu_co8) : eu_co := match c with HPrepare => EPrepare | _ => ENone end.
Definition eu_of (e : eu8) : eu3 := mk_eu3 (co_of (h_co e)) (h_memory e) (h_runner e) (h_seq e).
Definition mode_of (m : mode8) : mode3 :=
  match m with
  | PNormal => NNormal | PRet => NRet | PFlushE a b c => NFlushE a b c
  | PFlushW k a b c d => NFlushW k a b c d | PFinal => NNormal
  end.
Definition st3_of (s : st8) : st3 :=
  mk_st3 (y_x (v_y s)) (map eu_of (v_eus s)) (v_wus s) (v_cycle s) (mode_of (v_mode s)).

Definition lift8 (o : eu_res8) : outcome (mx * eu3 * eu_out3) :=
  match o with Ok (y', e', out) => Ok (y_x y', eu_of e', out) | Err er => Err er | Panic => Panic end.

(* difference (a): the two register readers agree for this runner in this machine state *)
Definition rd_agree (x : mx) (r : runner3) : Prop :=
  forall reg, rr8 x (q_pc r) (q_seq r) reg = rr3 x (q_pc r) reg.

(* the receive step of prepareRun (same code in both variants) *)
Definition recv3 (x : mx) (r : runner3) : option (mx * runner3) :=
  match q_recv r with
  | None => Some (x, r)
  | Some ch =>
      match aget ch (x_chan x) with
      | None => None
      | Some v =>
          Some (set_forward3 (set_chan3 x (filter (fun p => negb (fst p =? ch)) (x_chan x))) (q_pc r) (q_freg r) v,
                mk_r3 (q_r r) (q_id r) (q_fwder r) None (q_freg r))
      end
  end.

(* the reads of prepareRun + run agree: after the receive and branchUnit.assert *)
Definition prep_agree (x : mx) (r : runner3) : Prop :=
  forall x0 r1, recv3 x r = Some (x0, r1) -> rd_agree (bu_assert3 x0 (q_r r1)) r1.

Definition pre8 (e : eu8) : bool :=
  if h_seq e =? 0 then false else match h_runner e with None => false | Some r => h_seq e <? q_seq r end.

(* the conditions under which one call of executeUnit.Cycle of MVP-8.0 is the call of MVP-6.3 *)
Definition eu_cond (y : my) (e : eu8) : Prop :=
  y_pref y = [] /\
  (pre8 e = true -> eu_pending8 y e = false) /\
  (pre8 e = false ->
     match h_co e with
     | HNone => forall r b', bb_get (x_ebus (y_x y)) = (b', Some r) -> prep_agree (set_ebus3 (y_x y) b') r
     | _ => forall r, h_runner e = Some r -> prep_agree (y_x y) r
     end).

(* ------------------------------------------------------------------ *)
(* ISA facts                                                            *)
(* ------------------------------------------------------------------ *)

(* Run never looks at its sequence id argument *)
Lemma instr_Run_seq0 : forall i f labels pc mem s, instr_Run i f labels pc mem s = instr_Run i f labels pc mem 0.
Proof. intros i f labels pc mem s. destruct i; reflexivity. Qed.

Lemma eu_pre3_of : forall e, eu_pre3 (eu_of e) = pre8 e.
Proof. reflexivity. Qed.

(* pick without preferences is Get *)
Lemma pick8_nil : forall id q, pick8 [] id q = match q with [] => None | r :: t => Some (r, t) end.
Proof. intros id [|r t]; reflexivity. Qed.

(* ------------------------------------------------------------------ *)
(* run                                                                  *)
(* ------------------------------------------------------------------ *)

Lemma eu_run_sim : forall labels ord cycle y i e,
  (forall r, h_runner e = Some r -> NM r /\ rd_agree (y_x y) r) ->
  eu_run3 labels ord cycle (y_x y) (eu_of e) = (false, lift8 (eu_run8 labels ord cycle y i e)).
Proof.
  intros labels ord cycle y i e H. unfold eu_run3, eu_run8. cbn [eu_of g_runner g_memory g_seq g_co].
  destruct (h_runner e) as [r|] eqn:ER; [|reflexivity].
  destruct (H r eq_refl) as [HN HA]. cbv zeta.
  rewrite (instr_Run_seq0 _ _ _ _ _ (q_seq r)).
  rewrite (Mvp62RefRel.instr_Run_ext _ _ _ labels (q_pc r) (h_memory e) 0 HA).
  destruct (instr_Run (q_instr r) (rr3 (y_x y) (q_pc r)) labels (q_pc r) (h_memory e) 0) as [exe|er|] eqn:EX;
    [|reflexivity|reflexivity].
  rewrite (nomem_no_change _ _ _ _ _ _ _ HN EX).
  destruct (Return exe); [reflexivity|].
  cbn [andb bind]. cbv beta iota.
  destruct (q_fwder r) as [ch|].
  - destruct (aget ch _); [reflexivity|]. destruct (InstructionType_IsBranch _); reflexivity.
  - destruct (PcChange exe); [|reflexivity].
    destruct (bu_should_flush6 _ _) as [b' fl]. reflexivity.
Qed.

(* ------------------------------------------------------------------ *)
(* prepareRun                                                           *)
(* ------------------------------------------------------------------ *)

Lemma eu_prepare_sim : forall labels ord cycle y i e,
  (forall r, h_runner e = Some r -> NM r /\ prep_agree (y_x y) r) ->
  eu_prepare3 labels ord cycle (y_x y) (eu_of e) = (false, lift8 (eu_prepare8 labels ord cycle y i e)).
Proof.
  intros labels ord cycle y i e H. unfold eu_prepare3, eu_prepare8. cbv zeta.
  destruct (negb (bb_canadd (m_wbus (x_m (y_x y))))); [reflexivity|].
  cbn [eu_of g_runner g_memory g_seq g_co].
  destruct (h_runner e) as [r|] eqn:ER; [|reflexivity].
  destruct (H r eq_refl) as [HN HA]. unfold prep_agree in HA.
  fold (recv3 (y_x y) r).
  destruct (recv3 (y_x y) r) as [[x0 r1]|] eqn:EV; [|reflexivity].
  assert (HN1 : NM r1).
  { unfold recv3 in EV. destruct (q_recv r) as [ch|].
    - destruct (aget ch _); [|discriminate]. inversion EV; subst. exact HN.
    - inversion EV; subst. exact HN. }
  rewrite !nomem_no_read by exact HN1.
  exact (eu_run_sim labels ord cycle (set_x y (bu_assert3 x0 (q_r r1))) i
           (mk_eu8 (h_co e) (h_memory e) (Some r1) (h_seq e))
           (fun r' Hr' => match Hr' in _ = o return match o with Some r'' => NM r'' /\ rd_agree _ r'' | None => True end
                          with eq_refl => conj HN1 (HA x0 r1 eq_refl) end)).
Qed.

(* ------------------------------------------------------------------ *)
(* executeUnit.Cycle                                                    *)
(* ------------------------------------------------------------------ *)

Section Units.
  Variables (mem0 : list Z) (c3 : cache) (k0 : msi8) (ccs0 : list cc8).
  Hypothesis Hccs : Forall cc_idle ccs0.
  Notation INV := (INV mem0 c3 k0 ccs0).

  Lemma eu_cycle_sim : forall labels ord cycle y i e,
    INV y -> EU e -> (i < length ccs0)%nat -> eu_cond y e ->
    eu_cycle3 labels ord cycle (y_x y) (eu_of e) = (false, lift8 (eu_cycle8 labels ord cycle y i e)).
  Proof.
    intros labels ord cycle y i e HI [HC HR] Hi (C1 & C2 & C3).
    unfold eu_cycle3, eu_cycle8. rewrite eu_pre3_of. cbv zeta. fold (pre8 e).
    destruct (pre8 e) eqn:EP.
    - rewrite (C2 eq_refl). unfold eu_flush8.
      pose proof HI as (I1 & I2 & I3).
      destruct (nth_error (y_ccs y) i) as [c|] eqn:EN.
      2: { exfalso. apply nth_error_None in EN. rewrite I2 in EN. lia. }
      assert (HCI : cc_idle c).
      { rewrite I2 in EN. apply nth_error_In in EN. rewrite Forall_forall in Hccs. apply Hccs. exact EN. }
      rewrite (cc_flush_idle (y_msi y) c HCI). reflexivity.
    - specialize (C3 eq_refl).
      change (g_co (eu_of e)) with (co_of (h_co e)).
      destruct HC as [HC|HC]; rewrite HC in C3 |- *; cbn [co_of].
      + rewrite C1, pick8_nil. unfold bb_get in C3 |- *.
        destruct (bb_q (x_ebus (y_x y))) as [|r q'] eqn:EQ; [reflexivity|].
        pose proof HI as (I1 & I2 & (P1 & P2 & P3 & P4 & P5)).
        assert (HN : NM r). { destruct P4 as [_ P4]. rewrite EQ in P4. inversion P4; assumption. }
        exact (eu_prepare_sim labels ord cycle
                 (set_x y (set_ebus3 (y_x y) (mk_bb (bb_buf (x_ebus (y_x y))) q' (bb_ql (x_ebus (y_x y))) (bb_bl (x_ebus (y_x y))))))
                 i (mk_eu8 HPrepare (h_memory e) (Some r) (h_seq e))
                 (fun r' Hr' => match Hr' in _ = o return match o with Some r'' => NM r'' /\ prep_agree _ r'' | None => True end
                                with eq_refl => conj HN (C3 r _ eq_refl) end)).
      + apply eu_prepare_sim. intros r Hr. split; [apply HR; exact Hr|apply C3; exact Hr].
  Qed.
End Units.

Print Assumptions eu_run_sim.
Print Assumptions eu_prepare_sim.
Print Assumptions eu_cycle_sim.
