(* Refinement of MVP-6.1 to the sequential machine on register-only programs -
   part 8: the loop over the execute units (eus_gen), the timing invariant TI1 (between
   two cycles every execute unit is idle, the queue of the write bus is empty, the execute
   bus holds the dispatched instructions that have not been executed, in order), the
   invariant GI1 of the main loop and one iteration of it up to the write units
   (normal_ok1). *)
From Coq Require Import ZArith List Bool Lia Permutation.
From Maj Require Import Base.Outcome Base.GoInt Base.GoTypes Isa.Spec Isa.Embed Isa.Seq Isa.Refine.
From Maj Require Import Gen.Latency Gen.RiscTables Gen.Opcodes Comp.Cache.
From Maj Require Import Mvp.Mvp12 Mvp.Mvp12Proofs Mvp.Mvp3 Mvp.Mvp3Proofs Mvp.Mvp4Skel Mvp.Mvp4Inv Mvp.Mvp5 Mvp.Mvp60 Mvp.Mvp61
     Mvp.Mvp60RefSem Mvp.Mvp60RefDefs Mvp.Mvp60RefFront Mvp.Mvp60RefBack Mvp.Mvp60RefStep
     Mvp.Mvp61RefSem Mvp.Mvp61RefFront Mvp.Mvp61RefBack Mvp.Mvp61RefInv Mvp.Mvp61RefCu Mvp.Mvp61RefExec Mvp.Mvp61RefExec2 Mvp.Mvp61RefStep.
Import ListNotations.
Open Scope Z_scope.

Lemma skipn_seq1 : forall n a len, skipn n (seq a len) = seq (a + n) (len - n).
Proof.
  induction n as [|n IH]; intros a len; [rewrite Nat.add_0_r, Nat.sub_0_r; reflexivity|].
  destruct len as [|len]; [reflexivity|]. cbn [seq skipn]. rewrite IH. f_equal; lia.
Qed.

Lemma firstn_seq1 : forall n a len, firstn n (seq a len) = seq a (Nat.min n len).
Proof.
  induction n as [|n IH]; intros a len; [reflexivity|]. destruct len as [|len]; [reflexivity|]. cbn [seq firstn Nat.min]. rewrite IH. reflexivity.
Qed.

Lemma existsb_false_forall {A} (f : A -> bool) l : existsb f l = false -> forall x, In x l -> f x = false.
Proof. intros H x Hx. destruct (f x) eqn:E; [|reflexivity]. rewrite <- H. symmetry. apply existsb_exists. exists x. auto. Qed.

Section Step2.
  Variables (app : list instr) (labels : Z -> option Z) (regs0 mem0 : list Z) (base : nat) (sq : Z) (off : Z).
  Hypothesis Happ : wf_app app.
  Hypothesis Hreg : reg_only app = true.
  Hypothesis Hrng : regs_in_range app = true.
  Hypothesis Hlen32 : length regs0 = 32%nat.
  Hypothesis Hbase : (base <= length app)%nat.
  Let n := length app.
  Let N := stop_from app base.
  Let M := Nat.max n 1.
  Hypothesis Hsq : 0 <= sq /\ 1000 * sq + 4 * Z.of_nat n < 2147483648.

  Notation sreg := (sreg app labels regs0 base).
  Notation eff := (eff app labels regs0 base).
  Notation ik := (ik app).
  Notation rnq := (rnq app sq).
  Notation r1q := (r1q app sq).
  Notation CoreI := (CoreI app labels regs0 mem0 base sq).
  Notation FL1 := (FL1 sq).
  Notation FetchI := (FetchI app).
  Notation phiF := (phiF app).
  Notation wbq := (wbq app labels regs0 base sq).
  Notation FrontI1 := (FrontI1 app base sq).
  Notation phi1 := (phi1 app).
  Notation notbr := (notbr app).
  Notation presp := (presp app).

  Hypothesis Hsem : forall k, (base <= k <= N)%nat -> (k < n)%nat ->
    exec (sinstr_of (ik k)) (rget (sreg k)) labels (pcz k) [] = Ok (eff k) /\
    (forall a, etarget (eff k) = Some a -> exists t, a = pcz t /\ (k < t <= n)%nat).
  Hypothesis Hr32 : Forall int32 regs0.

  Set Default Proof Using "All".
  Notation "'IA' L" := (L app labels regs0 mem0 base sq Happ Hreg Hrng Hlen32 Hbase Hsq Hsem) (at level 10, L at level 9, only parsing).
  Notation "'IE' L" := (L app labels regs0 mem0 base sq Happ Hreg Hrng Hlen32 Hbase Hsq Hsem Hr32) (at level 10, L at level 9, only parsing).

  Notation bresp := (bresp app labels regs0 base sq).
  Notation sid := (sid sq).

  Definition notret1 (k : nat) : bool := negb (is_ret (ik k)).

  (* the runner a unit still holds from an earlier execution is older than sequence id v *)
  Definition StaleLt (v : Z) (e : eu1) : Prop := forall r, e_runner (u_e e) = Some r -> r_seq r < v.

  (* if resp.flush && (!flush || resp.sequenceID < sequenceID) {...}; flush ||= resp.flush; ret ||= resp.ret *)
  Definition merge1 (acc : eu_out6) (p : resp1) : eu_out6 :=
    let take := p_flush p && (negb (o_flush acc) || (p_seq p <? o_from acc)) in
    mk_euo6 (o_flush acc || p_flush p) (if take then p_seq p else o_from acc) (if take then p_pc p else o_pc acc) (o_ret acc || p_ret p).

  Lemma sid_lt a b : (a < b)%nat -> sid a < sid b.
  Proof. unfold Mvp61RefFront.sid, pcz. lia. Qed.
  Lemma sid_le a b : (a <= b)%nat -> sid a <= sid b.
  Proof. unfold Mvp61RefFront.sid, pcz. lia. Qed.
  Lemma sid_nonneg a : 0 <= sid a.
  Proof. unfold Mvp61RefFront.sid, pcz. lia. Qed.

  Lemma eu_idle1 ord cy m e s0 : EuNone1 e -> eu_pre1 (eu_sid_set e s0) = false -> bb_q (x_ebus (y_x m)) = [] ->
    eu_cycle1 labels ord cy m (eu_sid_set e s0) = (false, Ok (m, eu_sid_set e s0, resp0)).
  Proof. intros [_ Hc] Hp Hq. unfold eu_cycle1. rewrite Hp. unfold bb_get. cbn [eu_sid_set u_e]. rewrite Hc, Hq. reflexivity. Qed.

  Lemma pre_false v e s0 : StaleLt v e -> (s0 = 0 \/ v <= s0) -> eu_pre1 (eu_sid_set e s0) = false.
  Proof.
    intros Hs Hv. unfold eu_pre1. cbn [eu_sid_set u_sid u_e]. destruct (Z.eqb_spec s0 0); [reflexivity|].
    destruct (e_runner (u_e e)) as [r|] eqn:Er; [|reflexivity]. specialize (Hs r Er). apply Z.ltb_ge. lia.
  Qed.

  (* for i, eu := range m.executeUnits { eu.sequenceID = sequenceID; resp := eu.Cycle(...) }, all units idle:
     they execute the first j instructions of the execute bus, whatever they are *)
  Lemma eus_gen ord cy d P : forall eus m acc x lq v,
    Forall EuNone1 eus -> Forall (StaleLt v) eus -> v <= sid x -> (o_from acc = 0 \/ v <= o_from acc) ->
    CoreI d P m -> BusOK cy (m_wbus (y_m m)) ->
    blen (m_wbus (y_m m)) + Z.of_nat (Nat.min (length eus) lq) <= 2 ->
    map r_b (bb_q (x_ebus (y_x m))) = map rnq (seq x lq) ->
    Forall (fun en => fst en < pcz x) (b_btb (m_bu (y_m m))) ->
    0 <= x_seq (y_x m) /\ x_seq (y_x m) + Z.of_nat lq < 2147483647 ->
    let j := Nat.min (length eus) lq in
    exists m' eus',
      eus_main labels ord cy m eus acc = (false, EAll m' eus' (fold_left merge1 (map bresp (seq x j)) acc) true) /\
      Forall EuNone1 eus' /\ length eus' = length eus /\ Forall (StaleLt (sid (x + j))) eus' /\
      CoreI d P m' /\ BusOK cy (m_wbus (y_m m')) /\ EuFrameW m m' /\
      bb_q (x_ebus (y_x m')) = skipn j (bb_q (x_ebus (y_x m))) /\
      bb_buf (m_wbus (y_m m')) = bb_buf (m_wbus (y_m m)) ++ map (fun k => (cy + 1, wbq k)) (filter notret1 (seq x j)) /\
      (forall k, (x <= k < x + j)%nat -> (base <= k < d)%nat /\ (k <= N)%nat /\ (k < n)%nat) /\
      ((forall k, (x <= k < x + j)%nat -> p_flush (bresp k) = false) ->
         m_fu (y_m m') = m_fu (y_m m) /\ m_dpbr (y_m m') = m_dpbr (y_m m) /\ b_btb (m_bu (y_m m')) = b_btb (m_bu (y_m m)) /\ x_seq (y_x m') = x_seq (y_x m)) /\
      Forall (fun en => fst en < pcz (x + j)) (b_btb (m_bu (y_m m'))) /\
      x_seq (y_x m) <= x_seq (y_x m') <= x_seq (y_x m) + Z.of_nat j.
  Proof.
    induction eus as [|e t IH]; intros m acc x lq v He Hst Hvx Hacc HC HW Hcap Hq Hbtb Hsb; cbv zeta.
    - exists m, []. cbn [eus_main length Nat.min seq map fold_left skipn filter]. rewrite Nat.add_0_r, app_nil_r.
      split; [reflexivity|]. split; [constructor|]. split; [reflexivity|]. split; [constructor|]. split; [exact HC|]. split; [exact HW|].
      split; [apply EuFrameW_refl|]. split; [reflexivity|]. split; [reflexivity|]. split; [intros k Hk; lia|]. split; [auto|]. split; [exact Hbtb | lia].
    - pose proof (Forall_inv He) as He1. pose proof (Forall_inv_tail He) as He2.
      pose proof (Forall_inv Hst) as Hs1. pose proof (Forall_inv_tail Hst) as Hs2. cbn [eus_main].
      pose proof (pre_false v e (o_from acc) Hs1 Hacc) as Hpre.
      destruct (bb_q (x_ebus (y_x m))) as [|r qt] eqn:Eq.
      + (* nothing left in the execute bus *)
        destruct lq; [|discriminate Hq]. rewrite (eu_idle1 ord cy m e (o_from acc) He1 Hpre Eq).
        cbn [p_err resp0 p_flush p_ret p_seq p_pc andb orb].
        replace (mk_euo6 (o_flush acc || false) (o_from acc) (o_pc acc) (o_ret acc || false)) with acc by (rewrite !orb_false_r; destruct acc; reflexivity).
        destruct (IH m acc x O v He2 Hs2 Hvx Hacc HC HW ltac:(rewrite Nat.min_0_r in *; lia) ltac:(rewrite Eq; reflexivity) Hbtb Hsb)
          as (m' & t' & E & A1 & A2 & A3 & A4 & A5 & A6 & A7 & A8 & A9 & A10 & A11 & A12).
        rewrite E. cbn [orb]. exists m', (eu_sid_set e (o_from acc) :: t'). rewrite !Nat.min_0_r in *. cbn [length seq map fold_left skipn filter] in *.
        split; [reflexivity|]. split; [constructor; [exact He1 | exact A1]|]. split; [cbn [length]; lia|].
        split; [constructor; [|exact A3]; intros r0 Hr0; specialize (Hs1 r0 Hr0); rewrite Nat.add_0_r; lia|].
        rewrite Eq in A7. repeat (split; [assumption|]). assumption.
      + destruct lq as [|lq]; [discriminate Hq|]. cbn [seq map] in Hq. injection Hq as Hrb Hq.
        pose proof ((IA kr1_rnq) r x Hrb) as Hkr.
        cbn [length Nat.min] in Hcap |- *.
        assert (Hadd : bb_canadd (m_wbus (y_m m)) = true) by (apply canadd_lt1; [apply (bus_bl _ _ HW) | lia]).
        destruct ((IE eu_exec2) ord cy d P m (eu_sid_set e (o_from acc)) r qt (pcz (S x)) HC He1 Hpre HW Hadd Eq
                    ltac:(rewrite Hkr; intros _; apply (btb_get_none _ (pcz x)); [exact Hbtb | lia]) ltac:(eapply Forall_impl; [|exact Hbtb]; cbn beta; intros en Hen; rewrite pcz_S; lia)
                    ltac:(rewrite Hkr, pcz_S; lia))
          as (m1 & e1 & E1 & B1 & B1' & B1'' & B2 & B3 & B4 & B5 & B6 & B7 & B8 & B9 & B10 & B11 & B12 & B13).
        rewrite Hkr in *. rewrite E1, ((IE bresp_err) x).
        change (mk_euo6 (o_flush acc || p_flush (bresp x))
                  (if p_flush (bresp x) && (negb (o_flush acc) || (p_seq (bresp x) <? o_from acc)) then p_seq (bresp x) else o_from acc)
                  (if p_flush (bresp x) && (negb (o_flush acc) || (p_seq (bresp x) <? o_from acc)) then p_pc (bresp x) else o_pc acc)
                  (o_ret acc || p_ret (bresp x))) with (merge1 acc (bresp x)).
        assert (Hacc' : o_from (merge1 acc (bresp x)) = 0 \/ v <= o_from (merge1 acc (bresp x))).
        { unfold merge1. cbn [o_from]. destruct (p_flush (bresp x) && _) eqn:Et; [|exact Hacc].
          right. apply andb_prop in Et as [Ef _]. unfold Mvp61RefExec2.bresp in Ef |- *. destruct (is_ret (ik x)); [discriminate|].
          destruct (etarget (eff x)); [|discriminate]. destruct (_ || _); [cbn [p_seq]; exact Hvx | discriminate]. }
        assert (Hb1 : blen (m_wbus (y_m m1)) <= blen (m_wbus (y_m m)) + 1).
        { unfold blen. rewrite B6. destruct (is_ret (ik x)); rewrite zlen_app; [rewrite zlen_nil | rewrite zlen_cons, zlen_nil]; lia. }
        assert (Hsb1 : x_seq (y_x m) <= x_seq (y_x m1) <= x_seq (y_x m) + 1).
        { destruct B13 as [->| ->]; [lia|]. unfold addS. rewrite wrapS_id; [lia | lia | apply int32_bounds; lia]. }
        destruct (IH m1 (merge1 acc (bresp x)) (S x) lq v He2 Hs2 ltac:(pose proof (sid_le x (S x)); lia) Hacc' B2 B3 ltac:(lia)
                    ltac:(rewrite B5; exact Hq) B12 ltac:(rewrite Nat2Z.inj_succ in Hsb; lia))
          as (m' & t' & E & A1 & A2 & A3 & A4 & A5 & A6 & A7 & A8 & A9 & A10 & A11 & A12).
        rewrite E. cbn [orb]. exists m', (e1 :: t'). cbn [length seq map fold_left].
        replace (x + S (Nat.min (length t) lq))%nat with (S x + Nat.min (length t) lq)%nat by lia.
        split; [reflexivity|]. split; [constructor; assumption|]. split; [lia|].
        split.
        { constructor; [|exact A3]. intros r0 Hr0. rewrite B1'' in Hr0. injection Hr0 as <-. cbn [Mvp61RefFront.rnq r_seq]. apply sid_lt. lia. }
        split; [exact A4|]. split; [exact A5|]. split; [eapply EuFrameW_trans; eassumption|].
        split; [rewrite A7, B5; reflexivity|].
        split.
        { rewrite A8, B6. cbn [filter]. unfold notret1 at 2. destruct (is_ret (ik x)); cbn [negb map]; rewrite <- ?app_assoc; reflexivity. }
        split.
        { intros k Hk. destruct (Nat.eq_dec k x) as [->|Hne]; [auto | apply A9; lia]. }
        split.
        { intros Hnf. destruct (B11 (Hnf x ltac:(lia))) as (F1 & F2 & F3 & F4).
          destruct (A10 ltac:(intros k Hk; apply Hnf; lia)) as (G1 & G2 & G3 & G4). repeat split; congruence. }
        split; [exact A11|]. rewrite Nat2Z.inj_succ. lia.
  Qed.


  (* ---------------------------------------------------------------- *)
  (* the timing invariant and the invariant of the main loop           *)

  Record TI1 (x d : nat) (m : mach1) (eus : list eu1) (wus : list wu6) : Prop := mkTI1 {
    t1_eus : Forall EuNone1 eus;
    t1_wq : bb_q (m_wbus (y_m m)) = [];
    t1_wb : blen (m_wbus (y_m m)) <= Z.of_nat (length wus);
    t1_wb2 : blen (m_wbus (y_m m)) <= 2;
    t1_len : length eus = length wus;
    t1_ebus : map r_b (EB m) = map rnq (seq x (d - x));
    t1_xd : (base <= x <= d)%nat;
    t1_exec : forall k, (base <= k < x)%nat -> bresp k = resp0;
    t1_stale : Forall (StaleLt (sid x)) eus }.

  Record GI1 (d c f x : nat) (s : st1) : Prop := mkGI1 {
    g1_front : FrontI1 d c f (t_cycle s) (t_m s);
    g1_core : CoreI d (x_cu (y_x (t_m s))) (t_m s);
    g1_prev : PrevB (t_m s);
    g1_ti : TI1 x d (t_m s) (t_eus s) (t_wus s);
    g1_wus : Forall (fun w => u_co w = WNone) (t_wus s);
    g1_wne : t_wus s <> [];
    g1_cyc : Z.of_nat d <= 2 * t_cycle s + off;
    g1_mode : t_mode s = NNormal }.

  Lemma phiM1_nn m : 0 <= phiM1 m.
  Proof.
    unfold phiM1. pose proof (blen_ge0 (m_dbus (y_m m))). pose proof (qlen_ge0 (m_dbus (y_m m))). pose proof (blen_ge0 (x_cbus (y_x m))).
    pose proof (qlen_ge0 (x_cbus (y_x m))). pose proof (zlen_ge0 (x_cu (y_x m))). pose proof (blen_ge0 (x_ebus (y_x m))). pose proof (qlen_ge0 (x_ebus (y_x m))).
    pose proof (blen_ge0 (m_wbus (y_m m))). pose proof (qlen_ge0 (m_wbus (y_m m))). lia.
  Qed.

  Lemma eus_empty1 eus : Forall EuNone1 eus -> forallb eu_empty (map u_e eus) = true.
  Proof.
    intros H. apply forallb_forall. intros e Hin. apply in_map_iff in Hin as (e1 & <- & Hin). rewrite Forall_forall in H.
    destruct (H e1 Hin) as [_ Hc]. unfold eu_empty. rewrite Hc. reflexivity.
  Qed.

  Lemma eus_empty1' eus : Forall EuNone1 eus -> forallb eu_empty1 eus = true.
  Proof.
    intros H. apply forallb_forall. intros e Hin. rewrite Forall_forall in H.
    destruct (H e Hin) as [_ Hc]. unfold eu_empty1, eu_empty. rewrite Hc. reflexivity.
  Qed.

  Lemma kr1_of_rb : forall jj a l, map r_b l = map rnq (seq a jj) -> map kr1 l = seq a jj.
  Proof.
    induction jj as [|j0 IHj]; intros a l Hl.
    - destruct l; [reflexivity | discriminate].
    - destruct l as [|r l]; [discriminate|]. cbn [seq map] in Hl |- *. injection Hl as Hr Hl. rewrite ((IA kr1_rnq) r a Hr). f_equal. apply IHj. exact Hl.
  Qed.

  Lemma bresp_ret k : is_ret (ik k) = true -> bresp k = mk_resp1 false 0 0 true None.
  Proof. intros H. unfold Mvp61RefExec2.bresp. rewrite H. reflexivity. Qed.

  Lemma bresp0_notret k : bresp k = resp0 -> is_ret (ik k) = false.
  Proof. intros H. destruct (is_ret (ik k)) eqn:E; [|reflexivity]. rewrite (bresp_ret k E) in H. discriminate. Qed.

  (* one iteration of the main loop, up to and including the write units *)
  Lemma normal_ok2 ord pord d c f x s : GI1 d c f x s ->
    exists os0 m4 m5 b6 eus' d' c' f' lq,
      let j := Nat.min (length (t_eus s)) lq in
      let m6 := set_m m5 b6 in
      let out := fold_left merge1 (map bresp (seq x j)) euo_none in
      let nofl := forall k, (x <= k < x + j)%nat -> p_flush (bresp k) = false in
      front1 app pord (t_cycle s + 1) (t_m s) = Ok (os0, m4) /\
      eus_main labels ord (t_cycle s + 1) m4 (t_eus s) euo_none = (false, EAll m5 eus' out true) /\
      wus_cycle (y_m m5) (t_wus s) (-1) = Ok (b6, t_wus s) /\
      (nofl -> FrontI1 d' c' f' (t_cycle s + 1) m6) /\ CoreI d' (x_cu (y_x m6)) m6 /\ PrevB m6 /\
      Forall EuNone1 eus' /\ length eus' = length (t_eus s) /\ Forall (StaleLt (sid (x + j))) eus' /\
      map r_b (EB m6) = map rnq (seq (x + j) (d' - (x + j))) /\ (x + j <= d')%nat /\
      bb_q (m_wbus (y_m m6)) = [] /\
      bb_buf (m_wbus (y_m m6)) = map (fun k => (t_cycle s + 1 + 1, wbq k)) (filter notret1 (seq x j)) /\ (j <= 2)%nat /\
      (forall k, (x <= k < x + j)%nat -> (base <= k < d')%nat /\ (k <= N)%nat /\ (k < n)%nat) /\
      (forall k, (x <= k < x + j)%nat -> is_ret (ik k) = true -> k = x /\ x = N /\ j = 1%nat /\ d' = S N) /\
      Z.of_nat d' <= 2 * (t_cycle s + 1) + off /\ (d' <= n)%nat /\ (d' <= S N)%nat /\
      IInv (m_l1i (y_m m6)) /\ Forall (fun en => fst en < pcz (x + j)) (b_btb (m_bu (y_m m6))) /\
      BusOK (t_cycle s + 1) (m_wbus (y_m m6)) /\
      (bb_ql (m_dbus (y_m m6)) = 2 /\ bb_bl (m_dbus (y_m m6)) = 2 /\ bb_ql (x_cbus (y_x m6)) = 2 /\ bb_bl (x_cbus (y_x m6)) = 2 /\
       bb_ql (x_ebus (y_x m6)) = 2 /\ bb_bl (x_ebus (y_x m6)) = 2 /\
       m_cu (y_m m6) = [] /\ bb_isempty (m_cbus (y_m m6)) = true /\ bb_isempty (m_ebus (y_m m6)) = true) /\
      sq <= x_seq (y_x m6) <= sq + Z.of_nat j /\
      (nofl -> phi1 m6 <= phi1 (t_m s) /\
               (phi1 m6 < phi1 (t_m s) \/ (lq = O /\ is_empty1 m6 eus' (t_wus s) = true))).
  Proof.
    intros [GF GB GP GT GW GWne GC GM].
    set (m0 := t_m s) in *. set (eus := t_eus s) in *. set (wus := t_wus s) in *. set (cyc := t_cycle s) in *.
    pose proof GT as [T1 T2 T3 T3' T4 T5 T6 T8 T9].
    assert (GEne : eus <> []) by (intros E; apply GWne; destruct wus; [reflexivity | rewrite E in T4; discriminate]).
    destruct (IA conn_ok1 d c f cyc m0 GF GB GP) as (C1 & C2 & C3 & C4 & CP & C5 & C6 & C6' & C7 & D1 & D2 & Cc1 & Cc2 & E1 & E2 & W1 & W2 & K1 & K2 & K3 & K4).
    set (m1 := conn1 m0 (cyc + 1)) in *.
    assert (Wq0 : qlen (m_wbus (y_m m0)) = 0) by (unfold qlen; rewrite T2; reflexivity).
    pose proof (blen_ge0 (m_wbus (y_m m1))) as Wb1ge. pose proof (qlen_ge0 (m_wbus (y_m m1))) as Wq1ge.
    assert (Wb1 : blen (m_wbus (y_m m1)) = 0) by lia.
    assert (Wq1 : qlen (m_wbus (y_m m1)) = blen (m_wbus (y_m m0))) by lia.
    destruct (IA fd_ok1 d c f cyc m1 C1 (f1_seq _ _ _ _ _ _ _ _ C1) (c_fwd _ _ _ _ _ _ _ _ _ C2))
      as (m3 & c' & f' & Efd & F3 & R1 & R2 & R3 & R4 & R5 & R7 & (cb & Rx) & R9 & Pfd & Sfd).
    assert (Rcu : x_cu (y_x m3) = x_cu (y_x m1)) by (rewrite Rx; destruct (y_x m1); reflexivity).
    assert (Reb : x_ebus (y_x m3) = x_ebus (y_x m1)) by (rewrite Rx; destruct (y_x m1); reflexivity).
    assert (Rpv : x_prev (y_x m3) = x_prev (y_x m1)) by (rewrite Rx; destruct (y_x m1); reflexivity).
    assert (HEB3 : EB m3 = EB m1) by (unfold EB; rewrite Reb; reflexivity).
    assert (HWB3 : WB m3 = WB m1) by (unfold WB; rewrite R7; reflexivity).
    assert (HB3 : CoreI d (x_cu (y_x m3)) m3).
    { rewrite Rcu. eapply (IA CoreI_ext); [exact HEB3 | exact HWB3 | exact R1 | exact R3 | exact R4 | exact R2 | exact R5 | | | | | | |exact C2];
        rewrite Rx; destruct (y_x m1); reflexivity. }
    assert (HP3 : forall p, In p (x_prev (y_x m3)) -> In p (EB m3) /\ r_fw p = None) by (rewrite Rpv, HEB3; exact CP).
    destruct (IA cu_ok1 pord d c' f' (cyc + 1) m3 F3 HB3 HP3)
      as (lp & F4 & B4 & P4 & Hlp2 & Hlpb & Q1 & Q1' & Q2 & Q3 & Qbu & Qdr & Qdp & Q4 & Q5 & Q6 & Q7 & Q8 & Pcu & Scu).
    set (m4 := snd (cu_cycle1 pord (cyc + 1) m3)) in *. set (d' := (d + lp)%nat) in *.
    destruct ((IA front1_dN) _ _ _ _ _ F4) as (Hd'N & Hd'n & _).
    assert (Efront : front1 app pord (cyc + 1) m0 = Ok (fst (cu_cycle1 pord (cyc + 1) m3), m4)).
    { rewrite front1_eq. fold m1. rewrite Efd. cbn [bind]. unfold m4. destruct (cu_cycle1 pord (cyc + 1) m3); reflexivity. }
    (* the execute bus: the contiguous tail of the dispatched instructions *)
    assert (Hrb4 : map r_b (EB m4) = map rnq (seq x (d' - x))).
    { rewrite Q7, HEB3, C3, T5. replace d with (x + (d - x))%nat at 2 by lia. rewrite seq_join. f_equal. f_equal. unfold d'. lia. }
    set (rs := bb_q (x_ebus (y_x m4))) in *. set (lq := length rs).
    assert (HEB4 : EB m4 = rs ++ map snd (bb_buf (x_ebus (y_x m4)))) by reflexivity.
    assert (Hlq2 : (lq <= 2)%nat).
    { pose proof (bus_q _ _ (f1_be _ _ _ _ _ _ _ _ F4)) as Hx. unfold qlen, zlen in Hx. fold rs in Hx. fold lq in Hx. lia. }
    assert (Hqe1 : qlen (x_ebus (y_x m1)) = Z.of_nat lq) by (rewrite <- Reb, <- Q5; reflexivity).
    set (j := Nat.min (length eus) lq).
    assert (Hwb4 : blen (m_wbus (y_m m4)) = 0) by (rewrite Q3, R7; exact Wb1).
    assert (Hjlq : (j <= lq)%nat) by (unfold j; lia).
    assert (Hl4 : (lq <= d' - x)%nat).
    { apply (f_equal (@length runner)) in Hrb4. rewrite !map_length, seq_length, HEB4, app_length in Hrb4. fold lq in Hrb4. lia. }
    assert (Hrs : map r_b rs = map rnq (seq x lq)).
    { assert (Hf : firstn lq (EB m4) = rs) by (rewrite HEB4, firstn_app, Nat.sub_diag; cbn [firstn]; rewrite app_nil_r; apply firstn_all).
      rewrite <- Hf, <- firstn_map, Hrb4, firstn_map, firstn_seq1. f_equal. f_equal. lia. }
    assert (Hsq4 : x_seq (y_x m4) = sq) by exact (f1_seq _ _ _ _ _ _ _ _ F4).
    assert (Hbtb4 : Forall (fun en => fst en < pcz x) (b_btb (m_bu (y_m m4)))).
    { eapply Forall_impl; [|exact (f1_btb _ _ _ _ _ _ _ _ F4)]. cbn beta. intros en Hen. unfold pcz in *. lia. }
    destruct (eus_gen ord (cyc + 1) d' (x_cu (y_x m4)) eus m4 euo_none x lq (sid x) T1 T9 (Z.le_refl _) (or_introl eq_refl) B4 (f1_bw _ _ _ _ _ _ _ _ F4)
                ltac:(fold j; lia) Hrs Hbtb4 ltac:(rewrite Hsq4; destruct Hsq; lia))
      as (m5 & eus' & Ee & A1 & A2 & A2' & A3 & A4 & A5 & A6 & A7 & A8 & A9 & A10 & A11).
    fold j in Ee, A2', A6, A7, A8, A9, A10, A11.
    pose proof A5 as [U1 U2 U3 U4 U5 U6 U7 U9 U11 U13 U14 U15 U16 U17 U18 U20 U21 U22 U24 U25 U26 U27 U28 U29].
    assert (A3' : CoreI d' (x_cu (y_x m5)) m5) by (rewrite U21; exact A3).
    destruct ((IE wus_ok1) d' (x_cu (y_x m5)) wus m5 A3' GW)
      as (b6 & Ew & B6 & V1 & V2 & V3 & V4 & V5 & V6 & V7 & V8 & V9 & V10 & V11 & V12 & V13 & V14 & V15 & V16 & V17 & V18).
    set (m6 := set_m m5 b6) in *.
    exists (fst (cu_cycle1 pord (cyc + 1) m3)), m4, m5, b6, eus', d', c', f', lq. cbv zeta. fold j. fold m6.
    split; [exact Efront|]. split; [exact Ee|]. split; [exact Ew|].
    (* the execute bus afterwards *)
    assert (HEB6 : EB m6 = skipn j (EB m4)).
    { change (EB m6) with (EB m5). unfold EB at 1, flat. rewrite A6, U27. fold rs. rewrite HEB4, skipn_app.
      replace (j - length rs)%nat with O by (fold lq; lia). reflexivity. }
    assert (Hrb6 : map r_b (EB m6) = map rnq (seq (x + j) (d' - (x + j)))).
    { rewrite HEB6, <- skipn_map, Hrb4, skipn_map, skipn_seq1. f_equal. f_equal. lia. }
    assert (Hxj : (x + j <= d')%nat) by lia.
    assert (Hq6 : bb_q (m_wbus (y_m m6)) = []).
    { change (y_m m6) with b6. rewrite V16, U16, Q3, R7. apply skipn_all2. unfold qlen, zlen in Wq1. lia. }
    assert (Hb6 : bb_buf (m_wbus (y_m m6)) = map (fun k => (cyc + 1 + 1, wbq k)) (filter notret1 (seq x j))).
    { change (y_m m6) with b6. rewrite V13, A7. assert (Hb : bb_buf (m_wbus (y_m m4)) = []) by (apply zlen_zero; exact Hwb4). rewrite Hb. reflexivity. }
    assert (Y7 : blen (m_wbus (y_m m6)) <= Z.of_nat j).
    { unfold blen, zlen. rewrite Hb6, map_length. pose proof (filter_len_le notret1 (seq x j)) as Hx. rewrite seq_length in Hx. lia. }
    (* a ret in the execute bus is alone there *)
    assert (Hrtt : forall k, (x <= k < x + j)%nat -> is_ret (ik k) = true -> k = x /\ x = N /\ j = 1%nat /\ d' = S N).
    { intros k Hk Hret. destruct (A8 k Hk) as (K1' & K2' & K3').
      assert (HkN : k = N).
      { destruct (Nat.eq_dec k N) as [|Hne]; [assumption|]. exfalso.
        pose proof (stop_from_before app dfl base k ltac:(fold N; lia)) as Hs. unfold is_stop in Hs.
        unfold Mvp60RefSem.ik in Hret. rewrite Hret in Hs. discriminate. }
      assert (Hd'S : d' = S N).
      { fold N in Hd'N. pose proof (f1_cu _ _ _ _ _ _ _ _ F4). lia. }
      rewrite HkN in Hret.
      destruct (c_rete _ _ _ _ _ _ _ _ _ B4 Hd'S Hret) as [Hx|Hx]; rewrite Hrb4 in Hx.
      - exfalso. apply (f_equal (@length runner)) in Hx. rewrite map_length, seq_length in Hx. cbn [length] in Hx. lia.
      - destruct (d' - x)%nat as [|[|k0]] eqn:Ed; cbn [seq map] in Hx; try discriminate.
        apply (f_equal (map r_pc)) in Hx. cbn [map Mvp61RefFront.rnq r_pc] in Hx. injection Hx as Hx. unfold pcz in Hx. assert (x = N) by lia.
        repeat split; lia. }
    (* the front end, when no unit asked for a flush *)
    assert (HF6 : (forall k, (x <= k < x + j)%nat -> p_flush (bresp k) = false) -> FrontI1 d' c' f' (cyc + 1) m6).
    { intros Hnf. destruct (A9 Hnf) as (X1 & X2 & X3 & X4).
      destruct F4 as [G1 Gc G2 G3 Gb G4 G5 G6 G7 G8 G9 Gbt G10 G11 G12 G13 G14 G15 G16].
      constructor; change (y_x m6) with (y_x m5); change (y_m m6) with b6;
        rewrite ?V5, ?V2, ?V8, ?V10, ?V11, ?V6, ?V7, ?V9, ?V12, ?X1, ?X2, ?X4, ?U5, ?U9, ?U11, ?U13, ?U14, ?U15, ?U21, ?U24; auto.
      - rewrite X3. exact Gbt.
      - eapply BusOK_frame; [exact U27 | exact U28 | exact U29 | | exact G12]. unfold qlen. rewrite A6. unfold zlen. rewrite skipn_length. fold rs. fold lq. lia.
      - unfold blen. rewrite U27. exact G14. }
    split; [exact HF6|]. split; [exact B6|].
    split; [unfold PrevB; change (y_x m6) with (y_x m5); rewrite U22, U27; exact P4|].
    split; [exact A1|]. split; [exact A2|]. split; [exact A2'|]. split; [exact Hrb6|]. split; [exact Hxj|]. split; [exact Hq6|]. split; [exact Hb6|].
    split; [unfold j; lia|]. split; [exact A8|]. split; [exact Hrtt|]. split; [unfold d'; lia|].
    split; [fold n in Hd'n; lia|]. split; [fold N in Hd'N; lia|].
    split; [change (y_m m6) with b6; rewrite V2, U5; exact (fi_l1 _ _ _ _ (f1_fetch _ _ _ _ _ _ _ _ F4))|].
    split; [change (y_m m6) with b6; rewrite V9; exact A10|].
    split; [apply V18; exact A4|].
    split.
    { change (y_m m6) with b6. change (y_x m6) with (y_x m5). rewrite V10, V8, V11, V12, U13, U11, U14, U15, U24, U28, U29.
      pose proof (f1_bsd _ _ _ _ _ _ _ _ F4) as [? ? _ _]. pose proof (f1_bc _ _ _ _ _ _ _ _ F4) as [? ? _ _]. pose proof (f1_be _ _ _ _ _ _ _ _ F4) as [? ? _ _].
      destruct (f1_old _ _ _ _ _ _ _ _ F4) as (O1 & O2 & O3). repeat split; assumption. }
    split; [change (y_x m6) with (y_x m5); rewrite <- Hsq4; exact A11|].
    (* the potential *)
    intros Hnf. destruct (A9 Hnf) as (X1 & X2 & X3 & X4). specialize (HF6 Hnf).
    assert (Y1 : m_fu (y_m m6) = m_fu (y_m m3)) by (change (y_m m6) with b6; rewrite V5, X1; exact Q1).
    assert (Y2 : m_dbus (y_m m6) = m_dbus (y_m m3)) by (change (y_m m6) with b6; rewrite V10, U13; exact Q2).
    assert (Y3 : x_cbus (y_x m6) = x_cbus (y_x m4)) by exact U24.
    assert (Y4 : x_cu (y_x m6) = x_cu (y_x m4)) by exact U21.
    assert (Y5 : blen (x_ebus (y_x m6)) = blen (x_ebus (y_x m4))) by (change (y_x m6) with (y_x m5); unfold blen; rewrite U27; reflexivity).
    assert (Y6 : qlen (x_ebus (y_x m6)) = Z.of_nat (lq - j)) by (change (y_x m6) with (y_x m5); unfold qlen, zlen; rewrite A6, skipn_length; reflexivity).
    assert (Y8 : qlen (m_wbus (y_m m6)) = 0) by (unfold qlen; rewrite Hq6; reflexivity).
    assert (Y9 : blen (x_cbus (y_x m4)) = blen (x_cbus (y_x m3))) by (unfold blen; rewrite Q4; reflexivity).
    assert (Y12 : zlen (x_cu (y_x m3)) = zlen (x_cu (y_x m0))) by (rewrite Rcu, C7; reflexivity).
    assert (Y13 : qlen (x_cbus (y_x m3)) = qlen (x_cbus (y_x m1))) by (unfold qlen; rewrite R9; reflexivity).
    assert (Y14 : blen (x_ebus (y_x m3)) = blen (x_ebus (y_x m1))) by (rewrite Reb; reflexivity).
    assert (Y15 : m_fu (y_m m1) = m_fu (y_m m0)) by exact C5.
    assert (Y15' : phiF (m_fu (y_m m1)) = phiF (m_fu (y_m m0))) by (rewrite Y15; reflexivity).
    pose proof (blen_ge0 (m_wbus (y_m m6))) as Y7'.
    assert (Hle : phi1 m6 <= phi1 m0).
    { unfold Mvp61RefStep.phi1, phiM1 in *. rewrite Y1, Y2, Y3, Y4, Y5, Y6, Y8, Y9. lia. }
    split; [exact Hle|].
    destruct (Z.eq_dec (blen (m_wbus (y_m m0))) 0) as [Wz|Wnz].
    2:{ left. pose proof (blen_ge0 (m_wbus (y_m m0))). unfold Mvp61RefStep.phi1, phiM1 in *. rewrite Y1, Y2, Y3, Y4, Y5, Y6, Y8, Y9. lia. }
    destruct (Nat.eq_dec j 0) as [Hj0|Hj0].
    2:{ left. unfold Mvp61RefStep.phi1, phiM1 in *. rewrite Y1, Y2, Y3, Y4, Y5, Y6, Y8, Y9. lia. }
    assert (Hlq0 : lq = O) by (unfold j in Hj0; destruct eus; [contradiction | cbn [length] in Hj0; lia]).
    assert (Eq0 : qlen (x_ebus (y_x m1)) = 0) by (rewrite Hqe1, Hlq0; reflexivity).
    assert (Eb0 : blen (x_ebus (y_x m1)) = 0) by lia.
    assert (HFL3 : FL1 m3 = []).
    { unfold Mvp61RefInv.FL1. rewrite HEB3, HWB3. unfold EB, WB. rewrite !flat_nil by lia. reflexivity. }
    destruct (Scu HFL3) as [Hs|[Hcu0 Hcq0]].
    { left. unfold Mvp61RefStep.phi1, phiM1 in *. rewrite Y1, Y2, Y3, Y4, Y5, Y6, Y8, Y9. lia. }
    assert (Cq0 : qlen (x_cbus (y_x m1)) = 0) by (rewrite <- Y13; unfold qlen; rewrite Hcq0; reflexivity).
    assert (Cb0 : blen (x_cbus (y_x m1)) = 0) by lia.
    assert (Cu0 : zlen (x_cu (y_x m0)) = 0) by (rewrite <- Y12, Hcu0; reflexivity).
    destruct Sfd as [Hs|[Hfu Hdu]].
    { left. unfold Mvp61RefStep.phi1, phiM1 in *. rewrite Y1, Y2, Y3, Y4, Y5, Y6, Y8, Y9. lia. }
    (* nothing is left between decode and write-back: the stopping instruction cannot have been decoded *)
    assert (Hxd : x = d).
    { pose proof T5 as Hx. rewrite <- C3 in Hx. unfold EB in Hx. rewrite flat_nil in Hx by lia. symmetry in Hx. apply map_eq_nil in Hx.
      apply (f_equal (@length nat)) in Hx. rewrite seq_length in Hx. cbn [length] in Hx. lia. }
    assert (Hcu1 : x_cu (y_x m1) = []) by (rewrite <- Rcu; exact Hcu0).
    assert (Hdc : d = Nat.min c n).
    { pose proof (f1_cb _ _ _ _ _ _ _ _ C1) as Hcl. rewrite Hcu1, flat_nil in Hcl by lia. cbn [length] in Hcl.
      symmetry in Hcl. apply map_eq_nil in Hcl.
      pose proof (f1_dc _ _ _ _ _ _ _ _ C1) as Hx. rewrite Hcu1 in Hx. cbn [length] in Hx. apply (f_equal (@length nat)) in Hcl. rewrite seq_length in Hcl. cbn [length] in Hcl. lia. }
    assert (Hdq : bb_q (m_dbus (y_m m1)) = []).
    { destruct Hdu as [Hdr|[Hdp|Hdq]]; [| |exact Hdq]; exfalso.
      - destruct (f1_dret_t _ _ _ _ _ _ _ _ C1 Hdr) as (HNn & Hc & Hret). subst c.
        assert (HNx : (base <= N < x)%nat) by (pose proof (stop_from_ge app base); fold N in H; lia).
        pose proof (bresp0_notret N (T8 N HNx)) as Hk. change (is_ret (ik N) = true) in Hret. congruence.
      - destruct (f1_dpbr_t _ _ _ _ _ _ _ _ C1 Hdp) as (HNn & Hc & Hjmp). subst c.
        assert (HNx : (base <= N < x)%nat) by (pose proof (stop_from_ge app base); fold N in H; lia).
        pose proof ((IE bresp_flush_jump) N ltac:(lia) HNn Hjmp) as Hf. rewrite (T8 N HNx) in Hf. discriminate Hf. }
    assert (Dq0 : qlen (m_dbus (y_m m1)) = 0) by (unfold qlen; rewrite Hdq; reflexivity).
    assert (Db0 : blen (m_dbus (y_m m1)) = 0) by lia.
    destruct Hfu as [(Hco & Hfu & Hcomp)|[_ Hnadd]].
    2:{ exfalso. unfold bb_canadd in Hnadd. fold (blen (m_dbus (y_m m1))) in Hnadd. rewrite Db0, (bus_bl _ _ (f1_bsd _ _ _ _ _ _ _ _ C1)) in Hnadd. discriminate. }
    right. split; [exact Hlq0|].
    assert (Hz6 : phiM1 m6 <= 0).
    { unfold Mvp61RefStep.phi1 in Hle. rewrite Y1, Hfu, Y15 in Hle.
      assert (phiM1 m0 <= 0); [|lia].
      unfold phiM1.
      pose proof (qlen_ge0 (m_dbus (y_m m0))). pose proof (qlen_ge0 (x_cbus (y_x m0))). pose proof (qlen_ge0 (x_ebus (y_x m0))). pose proof (qlen_ge0 (m_wbus (y_m m0))).
      pose proof (blen_ge0 (m_dbus (y_m m0))). pose proof (blen_ge0 (x_cbus (y_x m0))). pose proof (blen_ge0 (x_ebus (y_x m0))). pose proof (blen_ge0 (m_wbus (y_m m0))).
      lia. }
    assert (Hcomp6 : f_complete (m_fu (y_m m6)) = true).
    { rewrite Y1, Hcomp, Y15. destruct (f_complete (m_fu (y_m m0))) eqn:Ec; [reflexivity|].
      destruct (fi_nc _ _ _ _ (f1_fetch _ _ _ _ _ _ _ _ GF) Ec) as [_ Hx]. rewrite Y15 in Hco. contradiction. }
    unfold phiM1 in Hz6.
    pose proof (blen_ge0 (m_dbus (y_m m6))). pose proof (qlen_ge0 (m_dbus (y_m m6))). pose proof (blen_ge0 (x_cbus (y_x m6))).
    pose proof (qlen_ge0 (x_cbus (y_x m6))). pose proof (zlen_ge0 (x_cu (y_x m6))). pose proof (blen_ge0 (x_ebus (y_x m6))). pose proof (qlen_ge0 (x_ebus (y_x m6))).
    pose proof (qlen_ge0 (m_wbus (y_m m6))).
    destruct (f1_old _ _ _ _ _ _ _ _ HF6) as (O1 & O2 & O3).
    unfold is_empty1, is_empty6. rewrite Hcomp6, O1, O2, O3. replace (zlen (x_cu (y_x m6))) with 0 by lia. cbn [andb Z.eqb zlen length Z.of_nat].
    rewrite (wus_empty _ GW), !isempty_intro by lia. rewrite (eus_empty1 _ A1). reflexivity.
  Qed.
End Step2.
