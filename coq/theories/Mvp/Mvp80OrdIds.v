(* The identifiers of the cache controllers of MVP-8.0 (Mvp80.v) are an invariant of the step function.

   c_id of a controller is set by init8 to its index and no function of the memory system or of the
   pipeline ever changes it:
     1. cc_*_id, rd_*_id, wr_*_id, sn_*_id: every function of cc.go that returns a controller keeps its id;
     2. ids8 y = map c_id (y_ccs y) is preserved by every function over the machine state, hence
        step8_ids: a step keeps the list of ids; init8_ids: it starts as [0; 1; ..; par-1]. *)
From Coq Require Import ZArith List Bool Lia.
From Maj Require Import Base.Outcome Base.GoInt Base.GoTypes Isa.Spec Isa.Seq.
From Maj Require Import Gen.Latency Gen.RiscTables Gen.Opcodes Comp.Cache Comp.Rat Mvp.Mvp12 Mvp.Mvp3 Mvp.Mvp5 Mvp.Mvp60 Mvp.Mvp63 Mvp.Mvp80.
From Maj Require Import Mvp.Mvp60Proofs Mvp.Mvp63Proofs Mvp.Mvp80Proofs.
Import ListNotations.
Open Scope Z_scope.

(* ------------------------------------------------------------------ *)
(* tactics                                                              *)
(* ------------------------------------------------------------------ *)

(* H : f .. = Ok (.., c', ..) is one of the leaves left by split_hyp: a literal result, or a call of a
   function whose lemma L is known *)
Ltac leaf_lit H := inversion H; subst; reflexivity.
Ltac leaf_by L H := apply L in H; simpl in H; first [exact H | congruence].

(* ------------------------------------------------------------------ *)
(* 1. cc.go: coRead                                                     *)
(* ------------------------------------------------------------------ *)

Lemma rd_stay_id : forall w c s w' c' r, rd_stay w c s = Ok (w', c', r) -> c_id c' = c_id c.
Proof. intros w c s w' c' r H. unfold rd_stay in H. leaf_lit H. Qed.

Lemma rd_fin_id : forall w c addrs data w' c' r, rd_fin w c addrs data = Ok (w', c', r) -> c_id c' = c_id c.
Proof.
  intros w c addrs data w' c' r H. unfold rd_fin, bind in H.
  split_hyp H; try discriminate. leaf_lit H.
Qed.

Lemma rd_l1wait_id : forall w c addrs rem data w' c' r,
  rd_l1wait w c addrs rem data = Ok (w', c', r) -> c_id c' = c_id c.
Proof.
  intros w c addrs rem data w' c' r H. unfold rd_l1wait in H.
  destruct (0 <? rem); [leaf_by rd_stay_id H | leaf_by rd_fin_id H].
Qed.

Lemma rd_from_l1_id : forall w c addrs w' c' r, rd_from_l1 w c addrs = Ok (w', c', r) -> c_id c' = c_id c.
Proof.
  intros w c addrs w' c' r H. unfold rd_from_l1, bind in H.
  split_hyp H; try discriminate. leaf_by rd_l1wait_id H.
Qed.

Lemma rd_evict_wait_id : forall w c addrs cmd w' c' r,
  rd_evict_wait w c addrs cmd = Ok (w', c', r) -> c_id c' = c_id c.
Proof.
  intros w c addrs cmd w' c' r H. unfold rd_evict_wait in H.
  destruct (cmd_isdone _ _); [leaf_by rd_from_l1_id H | leaf_by rd_stay_id H].
Qed.

Lemma cc_push_l1_id : forall c addr ln p, cc_push_l1 c addr ln = Ok p -> c_id (fst p) = c_id c.
Proof.
  intros c addr ln p H. unfold cc_push_l1, bind in H.
  split_hyp H; try discriminate; inversion H; subst; reflexivity.
Qed.

Lemma rd_push_l1_id : forall w c addrs l1a l1dt w' c' r,
  rd_push_l1 w c addrs l1a l1dt = Ok (w', c', r) -> c_id c' = c_id c.
Proof.
  intros w c addrs l1a l1dt w' c' r H. unfold rd_push_l1 in H.
  apply bind_ok in H as (p & EP & H). apply cc_push_l1_id in EP.
  destruct (snd p) as [victim|].
  - apply bind_ok in H as (e & _ & H). apply rd_stay_id in H. congruence.
  - apply rd_from_l1_id in H. congruence.
Qed.

Lemma rd_sync_id : forall w c addrs w' c' r, rd_sync w c addrs = Ok (w', c', r) -> c_id c' = c_id c.
Proof.
  intros w c addrs w' c' r H. unfold rd_sync, bind in H.
  split_hyp H; try discriminate. leaf_by rd_push_l1_id H.
Qed.

Lemma rd_l3push_id : forall w c addrs rem l3a l3d w' c' r,
  rd_l3push w c addrs rem l3a l3d = Ok (w', c', r) -> c_id c' = c_id c.
Proof.
  intros w c addrs rem l3a l3d w' c' r H. unfold rd_l3push in H.
  destruct (0 <? rem); [leaf_by rd_stay_id H|].
  apply bind_ok in H as (p & _ & H). apply bind_ok in H as (a0 & _ & H). apply bind_ok in H as (k & _ & H).
  leaf_by rd_sync_id H.
Qed.

Lemma rd_l3lock_id : forall w c addrs l3a l3d w' c' r,
  rd_l3lock w c addrs l3a l3d = Ok (w', c', r) -> c_id c' = c_id c.
Proof.
  intros w c addrs l3a l3d w' c' r H. unfold rd_l3lock in H.
  apply bind_ok in H as (a0 & _ & H).
  destruct (l3_locked _ _); [leaf_by rd_stay_id H | leaf_by rd_l3push_id H].
Qed.

Lemma rd_memwait_id : forall w c addrs rem l3a l3d w' c' r,
  rd_memwait w c addrs rem l3a l3d = Ok (w', c', r) -> c_id c' = c_id c.
Proof.
  intros w c addrs rem l3a l3d w' c' r H. unfold rd_memwait in H.
  destruct (0 <? rem); [leaf_by rd_stay_id H | leaf_by rd_l3lock_id H].
Qed.

Lemma rd_l3wait_id : forall w c addrs rem w' c' r,
  rd_l3wait w c addrs rem = Ok (w', c', r) -> c_id c' = c_id c.
Proof.
  intros w c addrs rem w' c' r H. unfold rd_l3wait in H.
  destruct (0 <? rem); [leaf_by rd_stay_id H|].
  apply bind_ok in H as (a0 & _ & H). apply bind_ok in H as ([l3 [v|]] & _ & H).
  - apply bind_ok in H as (s & _ & H). destruct s as [[l1a l1dt]|]; [|discriminate].
    leaf_by rd_push_l1_id H.
  - apply bind_ok in H as (f & _ & H). leaf_by rd_memwait_id H.
Qed.

Lemma rd_pend_id : forall w c addrs rk pend w' c' r,
  rd_pend w c addrs rk pend = Ok (w', c', r) -> c_id c' = c_id c.
Proof.
  intros w c addrs rk pend w' c' r H. unfold rd_pend in H.
  destruct (negb _); [leaf_by rd_stay_id H|].
  destruct rk; [| leaf_by rd_from_l1_id H | discriminate].
  apply bind_ok in H as (a0 & _ & H). apply bind_ok in H as (g & _ & H).
  destruct g; [discriminate|]. leaf_by rd_l3wait_id H.
Qed.

Lemma rd_start_id : forall w c addrs w' c' r, rd_start w c addrs = Ok (w', c', r) -> c_id c' = c_id c.
Proof.
  intros w c addrs w' c' r H. unfold rd_start in H.
  apply bind_ok in H as (a0 & _ & H). cbv zeta in H. apply bind_ok in H as (x & _ & H).
  destruct (snd x) as [[[rk pend] p]|]; [leaf_by rd_pend_id H | leaf_lit H].
Qed.

Lemma cc_read_cycle_id : forall w c addrs w' c' r,
  cc_read_cycle w c addrs = Ok (w', c', r) -> c_id c' = c_id c.
Proof.
  intros w c addrs w' c' r H. unfold cc_read_cycle in H. destruct (c_read c).
  - leaf_by rd_start_id H.
  - leaf_by rd_pend_id H.
  - leaf_by rd_l3wait_id H.
  - leaf_by rd_evict_wait_id H.
  - leaf_by rd_memwait_id H.
  - leaf_by rd_l3lock_id H.
  - leaf_by rd_l3push_id H.
  - leaf_by rd_l1wait_id H.
Qed.

(* ------------------------------------------------------------------ *)
(* cc.go: coWrite                                                       *)
(* ------------------------------------------------------------------ *)

Lemma wr_stay_id : forall w c s w' c' b, wr_stay w c s = Ok (w', c', b) -> c_id c' = c_id c.
Proof. intros w c s w' c' b H. unfold wr_stay in H. leaf_lit H. Qed.

Lemma wr_fin_id : forall w c addrs data w' c' b, wr_fin w c addrs data = Ok (w', c', b) -> c_id c' = c_id c.
Proof.
  intros w c addrs data w' c' b H. unfold wr_fin, bind in H.
  split_hyp H; try discriminate. leaf_lit H.
Qed.

Lemma wr_final_id : forall w c addrs data rem w' c' b,
  wr_final w c addrs data rem = Ok (w', c', b) -> c_id c' = c_id c.
Proof.
  intros w c addrs data rem w' c' b H. unfold wr_final in H.
  destruct (0 <? rem); [leaf_by wr_stay_id H | leaf_by wr_fin_id H].
Qed.

Lemma wr_to_l1_id : forall w c addrs data w' c' b, wr_to_l1 w c addrs data = Ok (w', c', b) -> c_id c' = c_id c.
Proof. intros w c addrs data w' c' b H. unfold wr_to_l1 in H. leaf_by wr_final_id H. Qed.

Lemma wr_to_l1_after_id : forall w c addrs data rem w' c' b,
  wr_to_l1_after w c addrs data rem = Ok (w', c', b) -> c_id c' = c_id c.
Proof.
  intros w c addrs data rem w' c' b H. unfold wr_to_l1_after in H.
  destruct (0 <? rem); [leaf_by wr_stay_id H | leaf_by wr_to_l1_id H].
Qed.

Lemma wr_evict_wait_id : forall w c addrs data cmd w' c' b,
  wr_evict_wait w c addrs data cmd = Ok (w', c', b) -> c_id c' = c_id c.
Proof.
  intros w c addrs data cmd w' c' b H. unfold wr_evict_wait in H.
  destruct (cmd_isdone _ _); [leaf_by wr_to_l1_after_id H | leaf_by wr_stay_id H].
Qed.

Lemma wr_push_l1_id : forall w c addrs data l1a l1dt w' c' b,
  wr_push_l1 w c addrs data l1a l1dt = Ok (w', c', b) -> c_id c' = c_id c.
Proof.
  intros w c addrs data l1a l1dt w' c' b H. unfold wr_push_l1 in H.
  apply bind_ok in H as (p & EP & H). apply cc_push_l1_id in EP.
  destruct (snd p) as [victim|].
  - apply bind_ok in H as (e & _ & H). apply wr_stay_id in H. congruence.
  - apply wr_to_l1_id in H. congruence.
Qed.

Lemma wr_l1push_id : forall w c addrs data rem l1a l1dt w' c' b,
  wr_l1push w c addrs data rem l1a l1dt = Ok (w', c', b) -> c_id c' = c_id c.
Proof.
  intros w c addrs data rem l1a l1dt w' c' b H. unfold wr_l1push in H.
  destruct (0 <? rem); [leaf_by wr_stay_id H | leaf_by wr_push_l1_id H].
Qed.

Lemma wr_sync_id : forall w c addrs data w' c' b, wr_sync w c addrs data = Ok (w', c', b) -> c_id c' = c_id c.
Proof.
  intros w c addrs data w' c' b H. unfold wr_sync, bind in H.
  split_hyp H; try discriminate. leaf_by wr_push_l1_id H.
Qed.

Lemma wr_l3evict_wait_id : forall w c addrs data cmd w' c' b,
  wr_l3evict_wait w c addrs data cmd = Ok (w', c', b) -> c_id c' = c_id c.
Proof.
  intros w c addrs data cmd w' c' b H. unfold wr_l3evict_wait in H.
  destruct (cmd_isdone _ _); [leaf_by wr_sync_id H | leaf_by wr_stay_id H].
Qed.

Lemma wr_l3wait_id : forall w c addrs data rem l3a l3d w' c' b,
  wr_l3wait w c addrs data rem l3a l3d = Ok (w', c', b) -> c_id c' = c_id c.
Proof.
  intros w c addrs data rem l3a l3d w' c' b H. unfold wr_l3wait in H.
  destruct (0 <? rem); [leaf_by wr_stay_id H|].
  apply bind_ok in H as (a0 & _ & H).
  destruct (l3_locked _ _); [leaf_by wr_stay_id H|].
  apply bind_ok in H as (p & _ & H).
  destruct (snd p) as [victim|]; [cbv zeta in H; leaf_by wr_stay_id H | leaf_by wr_sync_id H].
Qed.

Lemma wr_memwait_id : forall w c addrs data rem l3a l3d w' c' b,
  wr_memwait w c addrs data rem l3a l3d = Ok (w', c', b) -> c_id c' = c_id c.
Proof.
  intros w c addrs data rem l3a l3d w' c' b H. unfold wr_memwait in H.
  destruct (0 <? rem); [leaf_by wr_stay_id H | leaf_by wr_l3wait_id H].
Qed.

Lemma wr_pend_id : forall w c addrs data rk pend w' c' b,
  wr_pend w c addrs data rk pend = Ok (w', c', b) -> c_id c' = c_id c.
Proof.
  intros w c addrs data rk pend w' c' b H. unfold wr_pend in H.
  destruct (negb _); [leaf_by wr_stay_id H|].
  destruct rk; [| discriminate | leaf_by wr_to_l1_id H].
  apply bind_ok in H as (a0 & _ & H). apply bind_ok in H as ([l3 [v|]] & _ & H).
  - apply bind_ok in H as (s & _ & H). destruct s as [[l1a l1dt]|]; [|discriminate].
    leaf_by wr_l1push_id H.
  - apply bind_ok in H as (f & _ & H). leaf_by wr_memwait_id H.
Qed.

Lemma wr_start_id : forall w c addrs data w' c' b, wr_start w c addrs data = Ok (w', c', b) -> c_id c' = c_id c.
Proof.
  intros w c addrs data w' c' b H. unfold wr_start in H.
  apply bind_ok in H as (a0 & _ & H). cbv zeta in H. apply bind_ok in H as (x & _ & H).
  destruct (snd x) as [[[rk pend] p]|]; [leaf_by wr_pend_id H | leaf_lit H].
Qed.

Lemma cc_write_cycle_id : forall w c addrs data w' c' b,
  cc_write_cycle w c addrs data = Ok (w', c', b) -> c_id c' = c_id c.
Proof.
  intros w c addrs data w' c' b H. unfold cc_write_cycle in H. destruct (c_write c).
  - leaf_by wr_start_id H.
  - leaf_by wr_pend_id H.
  - leaf_by wr_l1push_id H.
  - leaf_by wr_evict_wait_id H.
  - leaf_by wr_to_l1_after_id H.
  - leaf_by wr_memwait_id H.
  - leaf_by wr_l3wait_id H.
  - leaf_by wr_l3evict_wait_id H.
  - leaf_by wr_final_id H.
Qed.

(* ------------------------------------------------------------------ *)
(* cc.go: flush, coSnoop                                                *)
(* ------------------------------------------------------------------ *)

Lemma cc_flush_id : forall k c k' c', cc_flush k c = Ok (k', c') -> c_id c' = c_id c.
Proof.
  intros k c k' c' H. unfold cc_flush in H.
  apply bind_ok in H as (k1 & _ & H). apply bind_ok in H as (k2 & _ & H). leaf_lit H.
Qed.

Lemma sn_step_id : forall w c s w' c' o, sn_step w c s = Ok (w', c', o) -> c_id c' = c_id c.
Proof.
  intros w c s w' c' o H. unfold sn_step, bind in H.
  destruct s; cbv zeta in H; split_hyp H; try discriminate; inversion H; subst; reflexivity.
Qed.

Lemma sn_run_id : forall l w c w' c' l', sn_run w c l = Ok (w', c', l') -> c_id c' = c_id c.
Proof.
  induction l as [|s t IH]; intros w c w' c' l' H; cbn [sn_run] in H.
  - leaf_lit H.
  - apply bind_ok in H as ([[w1 c1] o] & E1 & H).
    apply bind_ok in H as ([[w2 c2] t'] & E2 & H).
    inversion H; subst. apply sn_step_id in E1. apply IH in E2. congruence.
Qed.

Lemma sn_create_id : forall w c key cid w' c', sn_create w c key cid = Ok (w', c') -> c_id c' = c_id c.
Proof.
  intros w c key cid w' c' H. unfold sn_create in H. cbv zeta in H.
  split_hyp H; try discriminate; inversion H; subst; reflexivity.
Qed.

Lemma sn_create_all_id : forall reqs w c w' c', sn_create_all w c reqs = Ok (w', c') -> c_id c' = c_id c.
Proof.
  induction reqs as [|[key cid] t IH]; intros w c w' c' H; cbn [sn_create_all] in H.
  - leaf_lit H.
  - apply bind_ok in H as ([w1 c1] & E1 & H). cbn [fst snd] in H.
    apply sn_create_id in E1. apply IH in H. congruence.
Qed.

Lemma cc_snoop_cycle_id : forall ord cycle w c w' c',
  snd (cc_snoop_cycle ord cycle w c) = Ok (w', c') -> c_id c' = c_id c.
Proof.
  intros ord cycle w c w' c' H. unfold cc_snoop_cycle in H.
  destruct (c_snoop c) as [|s0 t0] eqn:ES; cbn [snd] in H.
  - apply sn_create_all_id in H. exact H.
  - apply bind_ok in H as ([[w1 c1] l] & E1 & H). inversion H; subst.
    apply sn_run_id in E1. exact E1.
Qed.

Lemma snoops_cycle_id : forall ord cycle ccs w w' ccs',
  snd (snoops_cycle ord cycle w ccs) = Ok (w', ccs') -> map c_id ccs' = map c_id ccs.
Proof.
  intros ord cycle. induction ccs as [|c t IH]; intros w w' ccs' H; cbn [snoops_cycle] in H.
  - cbn [snd] in H. inversion H; reflexivity.
  - destruct (cc_snoop_cycle ord cycle w c) as [os1 r1] eqn:E1.
    destruct r1 as [[w1 c1]| |]; cbn [snd] in H; try discriminate.
    destruct (snoops_cycle ord cycle w1 t) as [os2 r2] eqn:E2. cbn [snd] in H.
    apply bind_ok in H as ([w2 t'] & Ez & H). inversion H; subst. cbn [fst snd map].
    f_equal.
    + apply (cc_snoop_cycle_id ord cycle w c w1 c1). rewrite E1. reflexivity.
    + eapply (IH w1). rewrite E2. reflexivity.
Qed.

(* ------------------------------------------------------------------ *)
(* 2. the list of ids of the machine                                    *)
(* ------------------------------------------------------------------ *)

Definition ids8 (y : my) : list Z := map c_id (y_ccs y).

Lemma map_set_nth6 : forall {A B} (f : A -> B) (l : list A) i c c1,
  nth_error l i = Some c -> f c1 = f c -> map f (set_nth6 l i c1) = map f l.
Proof.
  intros A B f. induction l as [|h t IH]; intros i c c1 HN HF.
  - reflexivity.
  - destruct i as [|i]; cbn [set_nth6 map].
    + cbn [nth_error] in HN. inversion HN; subst. rewrite HF. reflexivity.
    + cbn [nth_error] in HN. f_equal. eapply IH; eauto.
Qed.

Lemma put_mw_ids : forall y w, ids8 (put_mw y w) = ids8 y.
Proof. reflexivity. Qed.

Lemma put_cc_ids : forall y i c c1,
  nth_error (y_ccs y) i = Some c -> c_id c1 = c_id c -> ids8 (put_cc y i c1) = ids8 y.
Proof.
  intros y i c c1 HN HC. unfold ids8, put_cc. cbn [y_ccs set_ccs].
  eapply map_set_nth6; eauto.
Qed.

Lemma set_x_ids : forall y x, ids8 (set_x y x) = ids8 y.
Proof. reflexivity. Qed.

Lemma set_ymsi_ids : forall y k, ids8 (set_ymsi y k) = ids8 y.
Proof. reflexivity. Qed.

Lemma or_os8_ids : forall y b, ids8 (or_os8 y b) = ids8 y.
Proof. reflexivity. Qed.

Lemma wbus_connect8_ids : forall y cycle, ids8 (wbus_connect8 y cycle) = ids8 y.
Proof. reflexivity. Qed.

Lemma cu_cycle8_ids : forall ord cycle y, ids8 (cu_cycle8 ord cycle y) = ids8 y.
Proof. intros ord cycle y. unfold cu_cycle8. destruct (k_stale (y_msi y)); reflexivity. Qed.

Lemma front8_ids : forall app ord cycle y y', front8 app ord cycle y = Ok y' -> ids8 y' = ids8 y.
Proof.
  intros app ord cycle y y' H. unfold front8 in H. cbv zeta in H.
  apply bind_ok in H as ([[fu1 l1i1] dbus1] & _ & H).
  apply bind_ok in H as (x & _ & H).
  inversion H; subst. rewrite cu_cycle8_ids. reflexivity.
Qed.

Lemma snoops8_ids : forall ord cycle y y', snoops8 ord cycle y = Ok y' -> ids8 y' = ids8 y.
Proof.
  intros ord cycle y y' H. unfold snoops8 in H.
  destruct (snoops_cycle ord cycle (mw_of y) (y_ccs y)) as [os r] eqn:E.
  apply bind_ok in H as ([w1 ccs1] & Ez & H). inversion H; subst.
  change (map c_id ccs1 = map c_id (y_ccs y)).
  apply (snoops_cycle_id ord cycle (y_ccs y) (mw_of y) w1 ccs1). rewrite E. reflexivity.
Qed.

(* ------------------------------------------------------------------ *)
(* eu.go                                                                *)
(* ------------------------------------------------------------------ *)

Lemma eu_flush8_ids : forall y i e y' e', eu_flush8 y i e = Ok (y', e') -> ids8 y' = ids8 y.
Proof.
  intros y i e y' e' H. unfold eu_flush8 in H.
  destruct (nth_error (y_ccs y) i) as [c|] eqn:EN; [|discriminate].
  apply bind_ok in H as ([k1 c1] & EF & H). inversion H; subst. cbn [fst snd].
  apply cc_flush_id in EF.
  exact (put_cc_ids (set_ymsi y k1) i c c1 EN EF).
Qed.

Lemma eu_write8_ids : forall y i e addrs data y' e' o,
  eu_write8 y i e addrs data = Ok (y', e', o) -> ids8 y' = ids8 y.
Proof.
  intros y i e addrs data y' e' o H. unfold eu_write8 in H.
  destruct (nth_error (y_ccs y) i) as [c|] eqn:EN; [|discriminate].
  apply bind_ok in H as ([[w c1] done] & EW & H). inversion H; subst.
  apply cc_write_cycle_id in EW.
  exact (put_cc_ids (put_mw y w) i c c1 EN EW).
Qed.

Lemma eu_run8_ids : forall labels ord cycle y i e y' e' o,
  eu_run8 labels ord cycle y i e = Ok (y', e', o) -> ids8 y' = ids8 y.
Proof.
  intros labels ord cycle y i e y' e' o H. unfold eu_run8 in H. cbv zeta in H.
  destruct (h_runner e) as [r|]; [|discriminate].
  destruct (instr_Run _ _ _ _ _ _) as [exe|er|]; [|leaf_lit H|discriminate].
  destruct (Return exe); [leaf_lit H|].
  destruct (MemoryChange exe); [apply eu_write8_ids in H; exact H|].
  split_hyp H; try discriminate; inversion H; subst; reflexivity.
Qed.

Lemma eu_read8_ids : forall labels ord cycle y i e addrs y' e' o,
  eu_read8 labels ord cycle y i e addrs = Ok (y', e', o) -> ids8 y' = ids8 y.
Proof.
  intros labels ord cycle y i e addrs y' e' o H. unfold eu_read8 in H.
  destruct (nth_error (y_ccs y) i) as [c|] eqn:EN; [|discriminate].
  apply bind_ok in H as ([[w c1] res] & ER & H). cbv zeta in H.
  apply cc_read_cycle_id in ER.
  pose proof (put_cc_ids (put_mw y w) i c c1 EN ER) as HP. rewrite put_mw_ids in HP.
  destruct res as [d|].
  - apply eu_run8_ids in H. congruence.
  - inversion H; subst. exact HP.
Qed.

Lemma eu_prepare8_ids : forall labels ord cycle y i e y' e' o,
  eu_prepare8 labels ord cycle y i e = Ok (y', e', o) -> ids8 y' = ids8 y.
Proof.
  intros labels ord cycle y i e y' e' o H. unfold eu_prepare8 in H. cbv zeta in H.
  destruct (negb _); [leaf_lit H|].
  destruct (h_runner e) as [r|]; [|discriminate].
  match type of H with context [match ?rcv with Some _ => _ | None => _ end] =>
    destruct rcv as [[x0 r1]|] end; [|leaf_lit H].
  destruct (instr_MemoryRead _ _ _).
  - apply eu_run8_ids in H. exact H.
  - apply eu_read8_ids in H. exact H.
Qed.

Lemma eu_cycle8_ids : forall labels ord cycle y i e y' e' o,
  eu_cycle8 labels ord cycle y i e = Ok (y', e', o) -> ids8 y' = ids8 y.
Proof.
  intros labels ord cycle y i e y' e' o H. unfold eu_cycle8 in H. cbv zeta in H.
  match type of H with (if ?pre then _ else _) = _ => destruct pre end.
  - destruct (eu_pending8 y e); [discriminate|].
    apply bind_ok in H as ([y1 e1] & EF & H). inversion H; subst.
    apply eu_flush8_ids in EF. exact EF.
  - destruct (h_co e).
    + destruct (pick8 _ _ _) as [[r q']|]; [|leaf_lit H].
      apply eu_prepare8_ids in H. exact H.
    + apply eu_prepare8_ids in H. exact H.
    + apply eu_read8_ids in H. exact H.
    + apply eu_write8_ids in H. exact H.
Qed.

Lemma eus_main8_ids : forall labels ord cycle eus y i acc y' eus' o,
  eus_main8 labels ord cycle y i eus acc = Ok (y', eus', o) -> ids8 y' = ids8 y.
Proof.
  intros labels ord cycle. induction eus as [|e t IH]; intros y i acc y' eus' o H; cbn [eus_main8] in H.
  - leaf_lit H.
  - apply bind_ok in H as ([[y1 e1] o1] & E1 & H). apply eu_cycle8_ids in E1.
    destruct (y_err o1).
    + inversion H; subst. exact E1.
    + cbv zeta in H. apply bind_ok in H as ([[y2 t'] acc2] & E2 & H). inversion H; subst.
      apply IH in E2. congruence.
Qed.

Lemma eus_drain8_ids : forall labels ord cycle eus y i y' eus' er,
  eus_drain8 labels ord cycle y i eus = Ok (y', eus', er) -> ids8 y' = ids8 y.
Proof.
  intros labels ord cycle. induction eus as [|e t IH]; intros y i y' eus' er H; cbn [eus_drain8] in H.
  - leaf_lit H.
  - destruct (eu_empty8 e).
    + apply bind_ok in H as ([[y2 t'] er2] & E2 & H). inversion H; subst. apply IH in E2. exact E2.
    + apply bind_ok in H as ([[y1 e1] o1] & E1 & H). apply eu_cycle8_ids in E1.
      destruct (y_err o1).
      * inversion H; subst. exact E1.
      * apply bind_ok in H as ([[y2 t'] er2] & E2 & H). inversion H; subst.
        apply IH in E2. congruence.
Qed.

Lemma eus_flush8_ids : forall labels ord from eus y i acc y' eus' acc',
  eus_flush8 labels ord from y i eus acc = Ok (y', eus', acc') -> ids8 y' = ids8 y.
Proof.
  intros labels ord from. induction eus as [|e t IH]; intros y i acc y' eus' acc' H; cbn [eus_flush8] in H.
  - leaf_lit H.
  - destruct (eu_empty8 e && negb (eu_pending8 y e)).
    + apply bind_ok in H as ([[y2 t'] acc2] & E2 & H). inversion H; subst. apply IH in E2. exact E2.
    + apply bind_ok in H as ([[y1 e1] o1] & E1 & H). apply eu_cycle8_ids in E1.
      destruct (y_err o1).
      * inversion H; subst. exact E1.
      * cbv zeta in H. apply bind_ok in H as ([[y2 t'] acc2] & E2 & H). inversion H; subst.
        apply IH in E2. congruence.
Qed.

Lemma eus_final8_ids : forall labels ord cycle eus y i y' eus' b,
  eus_final8 labels ord cycle y i eus = Ok (y', eus', b) -> ids8 y' = ids8 y.
Proof.
  intros labels ord cycle. induction eus as [|e t IH]; intros y i y' eus' b H; cbn [eus_final8] in H.
  - leaf_lit H.
  - cbv zeta in H.
    match type of H with (if ?cond then _ else _) = _ => destruct cond end.
    + apply bind_ok in H as ([[y2 t'] b2] & E2 & H). inversion H; subst. apply IH in E2. exact E2.
    + destruct (nth_error (y_ccs y) i); [|discriminate].
      apply bind_ok in H as ([[y1 e1] o1] & E1 & H). apply eu_cycle8_ids in E1.
      apply bind_ok in H as ([[y2 t'] b2] & E2 & H). inversion H; subst.
      apply IH in E2. congruence.
Qed.

Lemma eus_flush_all8_ids : forall eus y i y' eus',
  eus_flush_all8 y i eus = Ok (y', eus') -> ids8 y' = ids8 y.
Proof.
  induction eus as [|e t IH]; intros y i y' eus' H; cbn [eus_flush_all8] in H.
  - leaf_lit H.
  - apply bind_ok in H as ([y1 e1] & E1 & H). apply eu_flush8_ids in E1.
    apply bind_ok in H as ([y2 t'] & E2 & H). cbn [fst snd] in *. inversion H; subst.
    apply IH in E2. congruence.
Qed.

(* ------------------------------------------------------------------ *)
(* cpu.go                                                               *)
(* ------------------------------------------------------------------ *)

Lemma res_of8_cont : forall {A} os (o : outcome A) k s',
  res_of8 os o k = VCont s' -> exists x, o = Ok x /\ k x = VCont s'.
Proof. intros A os o k s' H. destruct o; simpl in H; try discriminate. eauto. Qed.

Lemma ret_check8_ids : forall s s', ret_check8 s = VCont s' -> ids8 (v_y s') = ids8 (v_y s).
Proof.
  intros s s' H. unfold ret_check8 in H.
  match type of H with (if ?cond then _ else _) = _ => destruct cond end; inversion H; subst; reflexivity.
Qed.

Lemma flush_advance8_ids : forall s k seq pc from empty s',
  flush_advance8 s k seq pc from empty = VCont s' -> ids8 (v_y s') = ids8 (v_y s).
Proof.
  intros s k seq pc from empty s' H. unfold flush_advance8 in H.
  destruct (flush_next _ _ _) as [k'|]; [inversion H; subst; reflexivity|].
  destruct empty; [|inversion H; subst; reflexivity].
  cbv zeta in H. apply res_of8_cont in H as ([y1 eus1] & EF & H). inversion H; subst. cbn [fst v_y].
  apply eus_flush_all8_ids in EF. exact EF.
Qed.

Lemma back8_ids : forall s cycle y eus1 o s',
  back8 s cycle (y, eus1, o) = VCont s' -> ids8 (v_y s') = ids8 y.
Proof.
  intros s cycle y eus1 o s' H. unfold back8 in H.
  destruct (y_err o); [discriminate|].
  apply res_of8_cont in H as ([x1 wus1] & _ & H). cbv zeta in H. cbn [fst snd] in H.
  destruct (y_ret o).
  - apply ret_check8_ids in H. exact H.
  - destruct (y_flush o); [inversion H; subst; reflexivity|].
    destruct (is_empty8 _ _ _); inversion H; subst; reflexivity.
Qed.

Theorem step8_ids : forall app labels ord s s',
  step8 app labels ord s = VCont s' -> ids8 (v_y s') = ids8 (v_y s).
Proof.
  intros app labels ord s s' H. unfold step8 in H. cbv zeta in H.
  destruct (v_mode s) as [| |seq pc from|k seq pc from empty|] eqn:EM.
  - (* PNormal *)
    apply res_of8_cont in H as (y1 & E1 & H). apply front8_ids in E1.
    apply res_of8_cont in H as (y2 & E2 & H). apply snoops8_ids in E2.
    apply res_of8_cont in H as ([[y3 eus1] o] & E3 & H). apply eus_main8_ids in E3.
    apply back8_ids in H. congruence.
  - (* PRet *)
    apply res_of8_cont in H as (y1 & E1 & H). apply snoops8_ids in E1.
    apply res_of8_cont in H as ([[y2 eus1] er] & E2 & H). apply eus_drain8_ids in E2.
    destruct er; [discriminate|].
    apply res_of8_cont in H as ([x1 wus1] & _ & H). cbv zeta in H.
    apply ret_check8_ids in H. cbn [v_y fst] in H.
    rewrite wbus_connect8_ids, set_x_ids in H. congruence.
  - (* PFlushE *)
    apply res_of8_cont in H as (y1 & E1 & H). apply snoops8_ids in E1.
    apply res_of8_cont in H as ([[y2 eus1] acc] & E2 & H). apply eus_flush8_ids in E2.
    destruct (a_err acc); [discriminate|].
    apply flush_advance8_ids in H. cbn [v_y] in H.
    rewrite wbus_connect8_ids in H. congruence.
  - (* PFlushW *)
    destruct (nth_error (v_wus s) k) as [w|]; [|discriminate].
    apply res_of8_cont in H as ([x1 w1] & _ & H).
    apply flush_advance8_ids in H. cbn [v_y fst] in H.
    rewrite set_x_ids in H. exact H.
  - (* PFinal *)
    apply res_of8_cont in H as (y1 & E1 & H). apply snoops8_ids in E1.
    apply res_of8_cont in H as ([[y2 eus1] busy] & E2 & H). apply eus_final8_ids in E2.
    destruct (_ && _) in H; [discriminate|].
    inversion H; subst. cbn [v_y]. congruence.
Qed.

(* any number of steps *)
Lemma run8_st_ids : forall fuel app labels ord s s',
  run8_st fuel app labels ord s = inr s' -> ids8 (v_y s') = ids8 (v_y s).
Proof.
  induction fuel as [|f IH]; intros app labels ord s s' H; cbn [run8_st] in H.
  - inversion H; reflexivity.
  - destruct (step8 app labels ord s) as [r os|s1] eqn:ES; [discriminate|].
    apply step8_ids in ES. apply IH in H. congruence.
Qed.

Lemma init8_ids : forall par ord app st s,
  init8 par ord app st = Ok s -> ids8 (v_y s) = map Z.of_nat (seq 0 par).
Proof.
  intros par ord app st s H. unfold init8 in H.
  destruct (new_cache l1LineSize l1Size) as [ci| |]; try discriminate.
  destruct (new_cache l3LineSize8 l3Size8) as [c3| |]; try discriminate.
  destruct (new_cache l1dLineSize l1dSize) as [cd| |]; try discriminate.
  cbv zeta in H. inversion H; subst. unfold ids8. cbn [v_y y_ccs].
  rewrite map_map. apply map_ext. intros a. reflexivity.
Qed.

Corollary ids8_nonneg : forall l, (exists par, l = map Z.of_nat (seq 0 par)) -> Forall (fun z => 0 <= z) l.
Proof.
  intros l [par ->]. apply Forall_forall. intros z HZ.
  apply in_map_iff in HZ as (n & <- & _). lia.
Qed.

(* the ids of every reachable state are 0 .. par-1, in order *)
Corollary reach8_ids : forall par ord app labels st s fuel s',
  init8 par ord app st = Ok s -> run8_st fuel app labels ord s = inr s' ->
  ids8 (v_y s') = map Z.of_nat (seq 0 par).
Proof.
  intros par ord app labels st s fuel s' HI HR.
  apply run8_st_ids in HR. apply init8_ids in HI. congruence.
Qed.

Print Assumptions step8_ids.
Print Assumptions init8_ids.
