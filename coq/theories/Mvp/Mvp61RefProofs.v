(* Refinement of MVP-6.1 (proc/mvp6-1 = MVP-6.0 + OPERAND FORWARDING between execute
   units: a RAW-dependent instruction is dispatched one cycle after its producer and
   receives the operand through a channel instead of the register file; sequence ids; a
   flush that first completes the older instructions) to the sequential machine Isa/Seq.v
   on REGISTER-ONLY programs - part 10: the theorems.

   1. Straight-line programs (no branch, no jump; ret anywhere): mvp61_refines_seq_straight,
      mvp61_run_straight (cycle bound), mvp61_cycles_lower_bound_straight,
      mvp61_terminates_straight, mvp61_no_panic_straight.
   2. FORWARD control flow (class fwd_ok of Mvp60RefProofs.v: branches / j / jal to labels
      strictly ahead, no div / rem / jalr) for texts whose sequence ids cannot wrap
      (seq_ids_fit): mvp61_refines_seq_forward.  The run is cut into straight-line segments at
      every flush (Fresh1 -> seg_run1 -> Fresh1 ...); ctx.sequenceID grows by at most three per
      segment.

   Structure of the proof
     Mvp61RefSem.v    BackSemF: the invariant of MVP-6.0 (Mvp60RefSem.BackSem) with the RAW clause
                      relaxed for the forwarded operand; an instruction in flight computes its
                      sequential effect when it reads through (Forward, register file) and the
                      Forward is the sequential operand (bf_exec); the value the producer sends is
                      that operand (Mvp61RefInv.fwd_value via bf_stable); BackSemV / bv_squash for
                      the flush
     Mvp61RefFront.v  registers in range, sequence ids, decode unit (clears the Forward)
     Mvp61RefBack.v   hazard list, shouldUseForwarding, Forwarder update, channels
     Mvp61RefInv.v    ChI (channels), CoreI (back end), pushRunner / Forwarder update keep them
     Mvp61RefCu.v     control unit: handleRunner, the two loops
     Mvp61RefExec.v   execute unit on a non-branch instruction, write units
     Mvp61RefExec2.v  execute unit on any instruction (branches, jumps: exec_fin, bresp)
     Mvp61RefStep.v   FrontI1, potential, Connect, fetch + decode, control unit
     Mvp61RefStep2.v  execute-unit loop (any group of instructions, stale runners and the Pre
                      hook), TI1 / GI1, one iteration of the main loop
     Mvp61RefStep3.v  one tick of Run in every loop: main loop, drain loop after ret, flush branch
     this file        initial state, segments put together, theorems. *)
From Coq Require Import ZArith List Bool Lia Permutation.
From Maj Require Import Base.Outcome Base.GoInt Base.GoTypes Isa.Spec Isa.Embed Isa.Seq Isa.Refine.
From Maj Require Import Gen.Latency Gen.RiscTables Gen.Opcodes Comp.Cache.
From Maj Require Import Mvp.Mvp12 Mvp.Mvp12Proofs Mvp.Mvp3 Mvp.Mvp3Proofs Mvp.Mvp4Skel Mvp.Mvp4Inv Mvp.Mvp4Sim Mvp.Mvp5 Mvp.Mvp60 Mvp.Mvp61
     Mvp.Mvp60RefSem Mvp.Mvp60RefDefs Mvp.Mvp60RefFront Mvp.Mvp60RefBack Mvp.Mvp60RefStep Mvp.Mvp60RefStep2 Mvp.Mvp60RefSeg Mvp.Mvp60RefProofs
     Mvp.Mvp61RefSem Mvp.Mvp61RefFront Mvp.Mvp61RefBack Mvp.Mvp61RefInv Mvp.Mvp61RefCu Mvp.Mvp61RefExec Mvp.Mvp61RefExec2 Mvp.Mvp61RefStep Mvp.Mvp61RefStep2 Mvp.Mvp61RefStep3.
Import ListNotations.
Open Scope Z_scope.

(* ticks of Run that suffice for one straight-line segment / a straight-line text / a text with
   forward control flow (one segment per flush) of n instructions *)
Definition fuel_bound61 (n : nat) : nat := (400 * n + 1600)%nat.
Definition fuel_bound61_fwd (n : nat) : nat := ((n + 1) * fuel_bound61 n)%nat.

(* a fresh state satisfies the invariant of the main loop at base t *)
Lemma fresh_GI1 app labels mem0 sq t R off s : Fresh1 app mem0 sq t R s -> (t <= length app)%nat ->
  length R = 32%nat -> Forall int32 R -> Z.of_nat t <= 2 * t_cycle s + off ->
  GI1 app labels R mem0 t sq off t t t t s.
Proof.
  intros [H1 H2 H3 H4 H5 H6 H7 H8 H9 H10 H11 H12 H13 H14 H15 H16 H17 X1 X2 X3 X4 X5 X6 X7 [X8 X9] H18 H19 H20 H21 H22 H23] Ht HlR HR Hc.
  assert (HEB : EB (t_m s) = []) by (unfold EB; rewrite X7; reflexivity).
  assert (HWB : WB (t_m s) = []) by (unfold WB; rewrite H17; reflexivity).
  constructor; auto.
  - constructor; rewrite ?H14, ?H17, ?X3, ?X6, ?X7, ?H12; try apply busok_new; auto; try lia.
    + constructor; auto.
      * rewrite H8. discriminate.
      * intros _. split; [lia | rewrite H8; discriminate].
      * rewrite H7. discriminate.
    + rewrite Nat.sub_diag. reflexivity.
    + cbn [length]. replace (Nat.min t (length app) - (t + 0))%nat with O by lia. reflexivity.
    + cbn [length]. lia.
    + intros _ _. pose proof (stop_from_ge app t). lia.
    + rewrite H10. discriminate.
    + rewrite H11. discriminate.
    + unfold blen, bb_new. cbn. lia.
  - rewrite X3. constructor; rewrite ?HEB, ?HWB; try (constructor; fail); auto.
    + exists (fun _ => None). split; [|intros r []].
      unfold FL1. rewrite HEB, HWB. cbn [map List.app]. rewrite H1, H3, H4.
      apply bf_init; [rewrite HlR; apply le_n | exact HR | reflexivity | reflexivity].
    + rewrite X5. discriminate.
    + constructor; rewrite ?HEB; cbn [List.app fws rcs flat_map]; auto.
      * rewrite app_nil_r. exact X9.
      * constructor.
      * intros r c [].
      * exact I.
    + intros p c [].
  - unfold PrevB. rewrite X4. constructor.
  - constructor; rewrite ?H17, ?HEB; auto; try reflexivity; try lia;
      try (unfold blen, bb_new; cbn; lia); try (rewrite Nat.sub_diag; reflexivity); try (intros k Hk; lia).
Qed.

(* NewCPU builds a fresh state at 0 *)
Lemma init_fresh1 app par st : (1 <= par)%nat ->
  exists s0, init1 par app st = Ok s0 /\ Fresh1 app (mem st) 0 0 (regs st) s0 /\ t_cycle s0 = 0.
Proof.
  intros Hpar. destruct (init_fresh app par st Hpar) as (s6 & E6 & [F1 F2 F3 F4 F5 F6 F7 F8 F9 F10 F11 F12 F13 F14 F15 F16 F17 F18 F19 F20 F21 F22] & _).
  unfold init1. rewrite E6. eexists. split; [reflexivity|]. split; [|reflexivity].
  assert (Hw : s_wus s6 = repeat (mk_wu6 WNone None) par).
  { unfold init6 in E6. destruct (new_cache l1LineSize l1Size); try discriminate. destruct (new_cache l3LineSize l3Size); try discriminate.
    injection E6 as <-. reflexivity. }
  constructor; cbn [t_m t_eus t_wus t_mode y_m y_x x_seq x_fwd x_cu x_prev x_pcb x_cbus x_ebus x_ch x_nch keys map]; auto.
  - rewrite F15. reflexivity.
  - rewrite F16. reflexivity.
  - split; constructor.
  - apply Forall_forall. intros e He. apply repeat_spec in He. subst e. split; reflexivity.
  - rewrite Hw, !repeat_length. reflexivity.
  - apply Forall_forall. intros e He. apply repeat_spec in He. subst e. intros r Hr. discriminate Hr.
Qed.

Lemma run1_more app labels ord pord : forall fuel k s r, run1_st fuel app labels ord pord s = inl r -> run1_st (fuel + k) app labels ord pord s = inl r.
Proof.
  induction fuel as [|fuel IH]; intros k s r H; [discriminate|]. cbn [run1_st Nat.add] in *.
  destruct (step1 app labels ord pord s); [exact H | apply IH; exact H].
Qed.

Lemma mvp61_run_more app labels par ord pord fuel k st c st' :
  mvp61_run par ord pord fuel app labels st = MDone c st' -> mvp61_run par ord pord (fuel + k) app labels st = MDone c st'.
Proof.
  unfold mvp61_run, mvp61_run_os. destruct (init1 par app st) as [s0| |]; try discriminate.
  destruct (run1_st fuel app labels ord pord s0) as [r|s'] eqn:E; [|discriminate].
  intros H. rewrite (run1_more app labels ord pord _ k _ _ E). exact H.
Qed.

Section Run.
  Variables (app : list instr) (labels : Z -> option Z) (regs0 mem0 : list Z) (base : nat) (sq : Z) (off : Z).
  Hypothesis Happ : wf_app app.
  Hypothesis Hreg : reg_only app = true.
  Hypothesis Hrng : regs_in_range app = true.
  Hypothesis Hlen32 : length regs0 = 32%nat.
  Hypothesis Hbase : (base <= length app)%nat.
  Let n := length app.
  Let N := stop_from app base.
  Hypothesis Hsq : 0 <= sq /\ 1000 * sq + 4 * Z.of_nat n < 2147483648.

  Notation sreg := (sreg app labels regs0 base).
  Notation eff := (eff app labels regs0 base).
  Notation ik := (ik app).
  Notation sid := (sid sq).
  Notation GI1 := (GI1 app labels regs0 mem0 base sq off).
  Notation GR1 := (GR1 app labels regs0 mem0 base sq off).
  Notation GF1 := (GF1 app labels regs0 mem0 base sq).
  Notation Fin1 := (Fin1 app labels regs0 mem0 base sq off).
  Notation bresp := (bresp app labels regs0 base sq).

  Hypothesis Hsem : forall k, (base <= k <= N)%nat -> (k < n)%nat ->
    exec (sinstr_of (ik k)) (rget (sreg k)) labels (pcz k) [] = Ok (eff k) /\
    (forall a, etarget (eff k) = Some a -> exists t, a = pcz t /\ (k < t <= n)%nat).
  Hypothesis Hr32 : Forall int32 regs0.

  Set Default Proof Using "All".
  Notation "'IS' L" := (L app labels regs0 mem0 base sq off Happ Hreg Hrng Hlen32 Hbase Hsq Hsem Hr32) (at level 10, L at level 9, only parsing).

  (* the state is in one of the loops of Run *)
  Inductive SInv1 (s : st1) : Prop :=
  | SI1_n d c f x : GI1 d c f x s -> SInv1 s
  | SI1_r d : GR1 d s -> SInv1 s
  | SI1_f d E t : GF1 d E t s -> SInv1 s.

  Definition mu1 (s : st1) : Z :=
    match t_mode s with
    | NNormal => phis1 app s + 4
    | NFlushO _ _ _ => 3
    | _ => qlen (m_wbus (y_m (t_m s)))
    end.

  (* how a segment ends *)
  Definition SegEnd1 (ord : Z -> Z -> list Z -> list Z) (pord : Z -> Z -> Z) (s : st1) (bound : nat) : Prop :=
    (exists k r os, (1 <= k <= bound)%nat /\ (forall extra, run1_st (k + extra) app labels ord pord s = inl (r, os)) /\ Fin1 r) \/
    (exists k s' E t sq', (1 <= k <= bound)%nat /\ (forall extra, run1_st (k + extra) app labels ord pord s = run1_st extra app labels ord pord s') /\
       Fresh1 app mem0 sq' t (sreg (S E)) s' /\ sq < sq' <= sq + 3 /\ (base <= E <= N)%nat /\ (E < t <= n)%nat /\
       (forall k', (base <= k' < E)%nat -> bresp k' = resp0) /\ bresp E = mk_resp1 true (sid E) (pcz t) false None).

  Lemma phis1_nn d c f x s : GI1 d c f x s -> 0 <= phis1 app s.
  Proof.
    intros HG. unfold phis1, phi1.
    pose proof (f1_fetch _ _ _ _ _ _ _ _ (g1_front _ _ _ _ _ _ _ _ _ _ _ _ HG)) as HFt.
    pose proof (phiF_nonneg app base _ _ _ HFt). pose proof ((IS phiM1_nn) (t_m s)). lia.
  Qed.

  Lemma mu1_nonneg s : SInv1 s -> 0 <= mu1 s.
  Proof.
    intros [d c f x HG|d HG|d E t HG]; unfold mu1.
    - rewrite (g1_mode _ _ _ _ _ _ _ _ _ _ _ _ HG). pose proof (phis1_nn _ _ _ _ _ HG). lia.
    - rewrite (r1_mode _ _ _ _ _ _ _ _ _ HG). apply qlen_ge0.
    - pose proof (gf1_mode _ _ _ _ _ _ _ _ _ _ HG) as Hm. destruct (t_mode s); try contradiction; [lia | apply qlen_ge0].
  Qed.

  Lemma gf1_modes d E t s : GF1 d E t s ->
    (exists from seq pc, t_mode s = NFlushO from seq pc) \/ (exists k ie from seq pc, t_mode s = NFlushW k ie from seq pc).
  Proof. intros HG. pose proof (gf1_mode _ _ _ _ _ _ _ _ _ _ HG) as Hm. destruct (t_mode s); try contradiction; [left | right]; eauto 6. Qed.

  Lemma seg_run1 ord pord : forall (b : nat) s, SInv1 s -> mu1 s < Z.of_nat b -> SegEnd1 ord pord s b.
  Proof.
    induction b as [|b IH]; intros s HS Hmu.
    - pose proof (mu1_nonneg s HS). lia.
    - assert (Hnext : forall s', step1 app labels ord pord s = TCont s' -> SInv1 s' -> mu1 s' < mu1 s -> SegEnd1 ord pord s (S b)).
      { intros s' Es HS' Hlt. destruct (IH s' HS' ltac:(lia)) as [(k & r & os & Hk & Hr & HF)|(k & s'' & E & t & sq' & Hk & Hr & Hrest)].
        - left. exists (S k), r, os. split; [lia|]. split; [|exact HF]. intros extra. cbn [Nat.add]. rewrite (run1_S _ _ _ _ _ _ _ Es). apply Hr.
        - right. exists (S k), s'', E, t, sq'. split; [lia|]. split; [|exact Hrest]. intros extra. cbn [Nat.add]. rewrite (run1_S _ _ _ _ _ _ _ Es). apply Hr. }
      assert (Hdone : forall r os, step1 app labels ord pord s = TDone r os -> Fin1 r -> SegEnd1 ord pord s (S b)).
      { intros r os Es HF. left. exists 1%nat, r, os. split; [lia|]. split; [|exact HF]. intros extra. apply run1_done. exact Es. }
      destruct HS as [d c f x HG|d HG|d E t HG].
      + destruct ((IS step_normal2) ord pord d c f x s HG)
          as [(s' & d' & c' & f' & x' & Es & HG' & Hlt)|[(r & os & Es & HF)|[(s' & d' & Es & HG')|(s' & d' & E & t & Es & HG' & (fr & sq0 & pc0 & Em))]]].
        * apply (Hnext s' Es (SI1_n s' d' c' f' x' HG')). unfold mu1. rewrite (g1_mode _ _ _ _ _ _ _ _ _ _ _ _ HG), (g1_mode _ _ _ _ _ _ _ _ _ _ _ _ HG'). lia.
        * apply (Hdone r os Es HF).
        * apply (Hnext s' Es (SI1_r s' d' HG')). pose proof (phis1_nn _ _ _ _ _ HG) as H0.
          unfold mu1 in *. rewrite (g1_mode _ _ _ _ _ _ _ _ _ _ _ _ HG) in *. rewrite (r1_mode _ _ _ _ _ _ _ _ _ HG').
          pose proof (bus_q _ _ (r1_bw _ _ _ _ _ _ _ _ _ HG')). lia.
        * apply (Hnext s' Es (SI1_f s' d' E t HG')). pose proof (phis1_nn _ _ _ _ _ HG) as H0.
          unfold mu1 in *. rewrite (g1_mode _ _ _ _ _ _ _ _ _ _ _ _ HG) in *. rewrite Em. lia.
      + destruct ((IS step_ret1) ord pord d s HG) as [(s' & Es & HG' & Hlt)|(r & os & Es & HF)].
        * apply (Hnext s' Es (SI1_r s' d HG')). unfold mu1. rewrite (r1_mode _ _ _ _ _ _ _ _ _ HG), (r1_mode _ _ _ _ _ _ _ _ _ HG'). exact Hlt.
        * apply (Hdone r os Es HF).
      + destruct (gf1_modes d E t s HG) as [HmO|HmW].
        * destruct ((IS step_flushO) ord pord d E t s HG HmO) as (s' & Es & HG' & (k0 & ie0 & fr0 & sq0 & pc0 & Em') & _).
          apply (Hnext s' Es (SI1_f s' d E t HG')). destruct HmO as (fr & sq1 & pc1 & Em). unfold mu1. rewrite Em, Em'.
          pose proof (bus_q _ _ (gf1_bw _ _ _ _ _ _ _ _ _ _ HG')). lia.
        * destruct ((IS step_flushW) ord pord d E t s HG HmW) as [(s' & Es & HG' & (k0 & ie0 & fr0 & sq0 & pc0 & Em') & Hlt)|(s' & sq' & Es & HFr & Hsq' & Hcyc)].
          -- apply (Hnext s' Es (SI1_f s' d E t HG')). destruct HmW as (k1 & ie1 & fr & sq1 & pc1 & Em). unfold mu1. rewrite Em, Em'. exact Hlt.
          -- right. exists 1%nat, s', E, t, sq'. split; [lia|]. split; [intros extra; apply run1_S; exact Es|].
             split; [exact HFr|]. split; [exact Hsq'|]. destruct (gf1_E _ _ _ _ _ _ _ _ _ _ HG) as (A1 & A2 & A3 & A4).
             split; [fold N in A4; lia|]. split; [fold n in A2; lia|]. split; [exact (gf1_exec _ _ _ _ _ _ _ _ _ _ HG) | exact (gf1_out _ _ _ _ _ _ _ _ _ _ HG)].
  Qed.

  (* the responses of MVP-6.1 and the outputs of MVP-6.0 describe the same control transfers *)
  Lemma bresp0_kout k : bresp k = resp0 -> kout app labels regs0 base k = euo_none.
  Proof.
    unfold Mvp61RefExec2.bresp, Mvp60RefBack.kout. destruct (is_ret (ik k)); [discriminate|]. destruct (etarget (eff k)); [|reflexivity].
    destruct (_ || _); [discriminate | reflexivity].
  Qed.

  Lemma bresp_flush_kout E a : bresp E = mk_resp1 true (sid E) a false None -> kout app labels regs0 base E = mk_euo6 true (pcz E) a false.
  Proof.
    unfold Mvp61RefExec2.bresp, Mvp60RefBack.kout. destruct (is_ret (ik E)); [discriminate|]. destruct (etarget (eff E)); [|discriminate].
    destruct (_ || _); [|discriminate]. intros H. injection H as ->. reflexivity.
  Qed.

  (* Fin1 is the Fin of the development of MVP-6.0: its lemmas about the sequential machine apply *)
  Lemma Fin1_Fin r : Fin1 r -> Fin app labels regs0 mem0 base off r.
  Proof.
    intros (cf & xe & E & Hx & Hall & Hend). exists cf, xe. split; [exact E|]. split; [exact Hx|]. split; [|exact Hend].
    intros k Hk. apply bresp0_kout. apply Hall. exact Hk.
  Qed.
End Run.

(* the potential of a fresh state *)
Lemma mu1_fresh app mem0 sq t R s : Fresh1 app mem0 sq t R s -> mu1 app s < Z.of_nat (fuel_bound61 (length app)).
Proof.
  intros [H1 H2 H3 H4 H5 H6 H7 H8 H9 H10 H11 H12 H13 H14 H15 H16 H17 X1 X2 X3 X4 X5 X6 X7 X8 H18 H19 H20 H21 H22 H23].
  unfold mu1. rewrite H22. unfold phis1, phi1, phiM1. rewrite H14, H17, X3, X6, X7.
  unfold phiF, phi_co. rewrite H6, H8. unfold blen, qlen, zlen, bb_new. cbn [bb_buf bb_q length].
  unfold fuel_bound61, MemoryAccess, pcz. lia.
Qed.

(* ------------------------------------------------------------------ *)
(* 2. forward control flow                                              *)

(* the text is short enough for the sequence ids (pc + 1000 * ctx.sequenceID, int32; the sequence
   id grows by at most three per flush) never to wrap *)
Definition seq_ids_fit (app : list instr) : Prop := 3004 * Z.of_nat (length app) < 2147483648.

Section Fwd1.
  Variables (app : list instr) (labels : Z -> option Z).
  Hypothesis Happ : wf_app app.
  Hypothesis Hreg : reg_only app = true.
  Hypothesis Hrng : regs_in_range app = true.
  Hypothesis Hfwd : fwd_ok app labels = true.
  Hypothesis Hfit : seq_ids_fit app.
  Let n := length app.
  Let sp := map sinstr_of app.

  Lemma fwd_core1 ord pord mem0 : forall m t R sq s fuel tr0 st' tr,
    (n - t <= m)%nat -> (t <= n)%nat -> Fresh1 app mem0 sq t R s -> length R = 32%nat -> Forall int32 R ->
    0 <= sq <= 3 * Z.of_nat t ->
    Seq.run fuel sp labels (mk_arch R mem0) (pcz t) tr0 = Done st' tr ->
    exists K c os, (K <= (m + 1) * fuel_bound61 n)%nat /\
                   forall extra, run1_st (K + extra) app labels ord pord s = inl (MDone c st', os).
  Proof.
    assert (Hsqb : forall t sq, (t <= n)%nat -> 0 <= sq <= 3 * Z.of_nat t -> 0 <= sq /\ 1000 * sq + 4 * Z.of_nat (length app) < 2147483648).
    { intros t sq Ht Hs. unfold seq_ids_fit in Hfit. fold n in Hfit |- *. lia. }
    induction m as [|m IH]; intros t R sq s fuel tr0 st' tr Hm Htn HF HlR HR Hsq Hrun.
    - (* t = n: the segment cannot end in a flush *)
      set (off := Z.of_nat t - 2 * t_cycle s).
      assert (HlR' : (length R <= 32)%nat) by (rewrite HlR; apply le_n).
      pose proof (fresh_GI1 app labels mem0 sq t R off s HF Htn HlR HR ltac:(unfold off; lia)) as HG.
      destruct (seg_run1 app labels R mem0 t sq off Happ Hreg Hrng HlR Htn (Hsqb t sq Htn Hsq) (hsem_all app labels Hfwd R t) HR ord pord (fuel_bound61 n) s
                  (SI1_n _ _ _ _ _ _ _ _ _ _ _ _ HG) (mu1_fresh _ _ _ _ _ _ HF))
        as [(k & r & os & Hk & Hr & HFin)|(k & s' & E & t' & sq' & Hk & Hr & HFr & Hsq' & HE & Ht' & _)]; [|fold n in Ht'; lia].
      pose proof (Fin1_Fin app labels R mem0 t sq off Happ Hreg Hrng HlR Htn (Hsqb t sq Htn Hsq) (hsem_all app labels Hfwd R t) HR r HFin) as HFin6.
      destruct (seg_seq_fin app labels R mem0 t off Hreg HlR' Htn (hsem_all app labels Hfwd R t) r fuel tr0 st' tr HFin6 Hrun) as (cf & -> & _).
      exists k, cf, os. split; [lia | exact Hr].
    - set (off := Z.of_nat t - 2 * t_cycle s).
      assert (HlR' : (length R <= 32)%nat) by (rewrite HlR; apply le_n).
      pose proof (fresh_GI1 app labels mem0 sq t R off s HF Htn HlR HR ltac:(unfold off; lia)) as HG.
      destruct (seg_run1 app labels R mem0 t sq off Happ Hreg Hrng HlR Htn (Hsqb t sq Htn Hsq) (hsem_all app labels Hfwd R t) HR ord pord (fuel_bound61 n) s
                  (SI1_n _ _ _ _ _ _ _ _ _ _ _ _ HG) (mu1_fresh _ _ _ _ _ _ HF))
        as [(k & r & os & Hk & Hr & HFin)|(k & s' & E & t' & sq' & Hk & Hr & HFr & Hsq' & HE & Ht' & Hex & Hout)].
      + pose proof (Fin1_Fin app labels R mem0 t sq off Happ Hreg Hrng HlR Htn (Hsqb t sq Htn Hsq) (hsem_all app labels Hfwd R t) HR r HFin) as HFin6.
        destruct (seg_seq_fin app labels R mem0 t off Hreg HlR' Htn (hsem_all app labels Hfwd R t) r fuel tr0 st' tr HFin6 Hrun) as (cf & -> & _).
        exists k, cf, os. split; [lia | exact Hr].
      + fold n in Ht'.
        pose proof (bresp_flush_kout app labels R mem0 t sq off Happ Hreg Hrng HlR Htn (Hsqb t sq Htn Hsq) (hsem_all app labels Hfwd R t) HR E (pcz t') Hout) as Hout6.
        assert (Hex6 : forall k', (t <= k' < E)%nat -> kout app labels R t k' = euo_none).
        { intros k' Hk'. apply (bresp0_kout app labels R mem0 t sq off Happ Hreg Hrng HlR Htn (Hsqb t sq Htn Hsq) (hsem_all app labels Hfwd R t) HR). apply Hex. exact Hk'. }
        destruct (seg_seq_flush app labels R mem0 t Hreg HlR' Htn (hsem_all app labels Hfwd R t) E t' fuel tr0 st' tr HE Ht' Hex6 Hout6 Hrun) as (fuel' & tr1 & Hrun').
        destruct (IH t' (sreg app labels R t (S E)) sq' s' fuel' tr1 st' tr ltac:(lia) ltac:(lia) HFr
                    ltac:(rewrite sreg_length; exact HlR) (sreg_int32 app labels R t HR (S E)) ltac:(lia) Hrun') as (K' & c & os & HK' & Hr').
        exists (k + K')%nat, c, os. split; [lia|]. intros extra. rewrite <- Nat.add_assoc, Hr. apply Hr'.
  Qed.

  (* 3. forward control flow without div / rem / jalr: the pipeline with operand forwarding computes the
        sequential result *)
  Theorem mvp61_refines_seq_forward par ord pord fuel st st' tr : (1 <= par)%nat ->
    Forall int32 (regs st) -> length (regs st) = 32%nat ->
    seq_run fuel sp labels st = Done st' tr ->
    exists c, forall fuel', (fuel_bound61_fwd (length app) <= fuel')%nat -> mvp61_run par ord pord fuel' app labels st = MDone c st'.
  Proof.
    intros Hpar HR HlR Hrun. destruct (init_fresh1 app par st Hpar) as (s0 & E0 & HF & _).
    unfold seq_run in Hrun. assert (Hst : st = mk_arch (regs st) (mem st)) by (destruct st; reflexivity).
    rewrite Hst in Hrun at 1. change 0 with (pcz 0) in Hrun.
    destruct (fwd_core1 ord pord (mem st) n O (regs st) 0 s0 fuel [] st' tr ltac:(lia) ltac:(lia) HF HlR HR ltac:(lia) Hrun) as (K & c & os & HK & Hr).
    exists c. intros fuel' Hf. unfold mvp61_run, mvp61_run_os. rewrite E0.
    unfold fuel_bound61_fwd in Hf. fold n in Hf.
    replace fuel' with (K + (fuel' - K))%nat by lia. rewrite Hr. reflexivity.
  Qed.
End Fwd1.

(* ------------------------------------------------------------------ *)
(* 1. straight-line programs                                            *)

Section Straight1.
  Variables (app : list instr) (labels : Z -> option Z).
  Hypothesis Happ : wf_app app.
  Hypothesis Hstr : straight app = true.
  Hypothesis Hreg : reg_only app = true.
  Hypothesis Hrng : regs_in_range app = true.
  Let n := length app.
  Let sp := map sinstr_of app.

  Variables (par : nat) (ord : Z -> Z -> list Z -> list Z) (pord : Z -> Z -> Z) (fuel : nat) (st st' : arch) (tr : list Z).
  Hypothesis Hpar : (1 <= par)%nat.
  Hypothesis Hr32 : Forall int32 (regs st).
  Hypothesis Hlen : length (regs st) = 32%nat.
  Hypothesis Hrun : seq_run fuel sp labels st = Done st' tr.

  Lemma hsq0 : 0 <= 0 /\ 1000 * 0 + 4 * Z.of_nat (length app) < 2147483648.
  Proof. destruct Happ as [_ H]. lia. Qed.

  (* 1 + 2. operand forwarding preserves the sequential result: the pipeline of MVP-6.1 computes the
     sequential registers and memory, without error or panic, for every number of execute / write
     units, every iteration order of both maps, all fuels from fuel_bound61 (length app) on; the
     cycle count is at least half the number of executed instructions (issue width two) *)
  Theorem mvp61_run_straight :
    exists c, (forall fuel', (fuel_bound61 (length app) <= fuel')%nat -> mvp61_run par ord pord fuel' app labels st = MDone c st') /\
              Z.of_nat (length tr) <= 2 * c.
  Proof.
    destruct (init_fresh1 app par st Hpar) as (s0 & E0 & HF & Hc0).
    assert (Hle : (length (regs st) <= 32)%nat) by (rewrite Hlen; apply le_n).
    pose proof (hsem_straight app labels Hstr Hreg par fuel st st' tr Hpar Hr32 Hle Hrun) as Hsem.
    pose proof (fresh_GI1 app labels (mem st) 0 0 (regs st) 0 s0 HF ltac:(lia) Hlen Hr32 ltac:(rewrite Hc0; lia)) as HG.
    destruct (seg_run1 app labels (regs st) (mem st) 0 0 0 Happ Hreg Hrng Hlen ltac:(lia) hsq0 Hsem Hr32 ord pord (fuel_bound61 n) s0
                (SI1_n _ _ _ _ _ _ _ _ _ _ _ _ HG) (mu1_fresh _ _ _ _ _ _ HF))
      as [(k & r & os & Hk & Hr & HFin)|(k & s' & E & t' & sq' & Hk & Hr & HFr & Hsq' & HE & Ht' & Hex & Hout)].
    - pose proof Hrun as Hrun'. unfold seq_run in Hrun'. assert (Hst : st = mk_arch (regs st) (mem st)) by (destruct st; reflexivity).
      rewrite Hst in Hrun' at 1. change 0 with (pcz 0) in Hrun'.
      pose proof (Fin1_Fin app labels (regs st) (mem st) 0 0 0 Happ Hreg Hrng Hlen ltac:(lia) hsq0 Hsem Hr32 r HFin) as HFin6.
      destruct (seg_seq_fin app labels (regs st) (mem st) 0 0 Hreg Hle ltac:(lia) Hsem r fuel [] st' tr HFin6 Hrun') as (cf & -> & Hcf).
      exists cf. split.
      + intros fuel' Hf. unfold mvp61_run, mvp61_run_os. rewrite E0. unfold fuel_bound61 in Hf. fold n in Hf.
        replace fuel' with (k + (fuel' - k))%nat by (unfold fuel_bound61 in Hk; lia). rewrite Hr. reflexivity.
      + cbn [length] in Hcf. rewrite Nat.sub_0_r, Nat.add_0_r in Hcf. lia.
    - (* no instruction of a straight-line program asks for a flush *)
      exfalso. fold n in Ht'.
      assert (HEn : (E < n)%nat) by lia.
      pose proof (eff_kind app labels (regs st) 0 Hsem E HE HEn) as Hkind.
      pose proof (nobranch_uncond _ (ik_nobranch app Hstr E)) as Hj. pose proof (nobranch_cond _ (ik_nobranch app Hstr E)) as Hcd.
      fold (is_jump (ik app E)) in Hj. fold (condbr (ik app E)) in Hcd.
      unfold bresp in Hout. destruct (is_ret (ik app E)); [discriminate|].
      destruct (eff app labels (regs st) 0 E); cbn [etarget] in Hout; try discriminate.
      + destruct Hkind as [Hx|[_ Hx]]; congruence.
      + congruence.
  Qed.

  Theorem mvp61_refines_seq_straight :
    exists c, forall fuel', (fuel_bound61 (length app) <= fuel')%nat -> mvp61_run par ord pord fuel' app labels st = MDone c st'.
  Proof. destruct mvp61_run_straight as (c & H & _). exists c. exact H. Qed.

  (* whenever the model finishes, with whatever fuel, it returns the sequential state and has
     counted at least ceil(executed / 2) cycles *)
  Theorem mvp61_cycles_lower_bound_straight fuel' c st'' :
    mvp61_run par ord pord fuel' app labels st = MDone c st'' ->
    st'' = st' /\ Z.of_nat (length tr) <= 2 * c /\ (Z.of_nat (length tr) + 1) / 2 <= c.
  Proof.
    intros H. destruct mvp61_run_straight as (c0 & H1 & H2).
    pose proof (mvp61_run_more app labels par ord pord fuel' (fuel_bound61 (length app)) st c st'' H) as H'.
    rewrite (H1 (fuel' + fuel_bound61 (length app))%nat ltac:(lia)) in H'. injection H' as -> ->.
    split; [reflexivity|]. split; [exact H2|]. assert (Hd := Z.div_lt_upper_bound (Z.of_nat (length tr) + 1) 2 (c + 1)); lia.
  Qed.

  Theorem mvp61_terminates_straight :
    exists c, mvp61_run par ord pord (fuel_bound61 (length app)) app labels st = MDone c st' /\
              (Z.of_nat (length tr) + 1) / 2 <= c.
  Proof.
    destruct mvp61_run_straight as (c & H1 & H2). exists c. split; [apply H1; lia|]. assert (Hd := Z.div_lt_upper_bound (Z.of_nat (length tr) + 1) 2 (c + 1)); lia.
  Qed.

  Corollary mvp61_no_panic_straight fuel' : (fuel_bound61 (length app) <= fuel')%nat ->
    mvp61_run par ord pord fuel' app labels st <> MPanic /\ mvp61_run par ord pord fuel' app labels st <> MOutOfFuel /\
    (forall e, mvp61_run par ord pord fuel' app labels st <> MErr e).
  Proof.
    intros Hf. destruct mvp61_refines_seq_straight as (c & Hc). rewrite (Hc fuel' Hf). repeat split; try discriminate.
  Qed.
End Straight1.
