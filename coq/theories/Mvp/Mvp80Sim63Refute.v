(* REFUTATION of mvp80_regonly_equals_mvp63_statement (Mvp80RegOnly63.v).

   Sequence ids are pc + 1000 * ctx.sequenceID (risc/app.go SequenceID) and ctx.sequenceID grows by 2 per
   taken unconditional jump without a BTB entry (notifyUnconditionalJumpAddressResolved -> fetchUnit.reset, then
   CPU.flush).  They are therefore NOT monotone in program order as soon as a jump goes backwards by more than
   2000 bytes (> 500 instructions): the instruction reached by the jump gets a SMALLER id than an OLDER
   instruction before the jump.  registerRead of MVP-8.0 (reg_read8: newest slot of the transaction RAT with
   sequence id <= the reader's) then skips the value written by that older instruction and returns the
   committed value, while MVP-6.3 (reg_read3: newest slot) returns the value written.

   cx_prog (504 instructions, no load, no store, no conditional branch):
        pc 0      j L1            -- id 0
        pc 4      add x7, x5, x0  -- id 4 + 4000 = 4004 when it is reached
        pc 8      ret
        pc 12..   nop * 499       -- never executed
        pc 2008   L1: li x5, 77   -- id 2008 + 2000 = 4008
        pc 2012   j L2 (= pc 4)
   with x5 = 1 initially: MVP-6.3 returns x7 = 77 (cycle 638), MVP-8.0 returns x7 = 1 (cycle 639), at 1..4 cores.
   The statement holds on all 101 600 sampled pairs because the sampled programs are shorter than 250
   instructions (ids monotone).  A true variant needs a hypothesis that keeps the ids monotone, e.g. a bound on
   the length of the program (4 * length app <= 1000), see the end of this file. *)
From Coq Require Import ZArith List Bool Lia.
From Maj Require Import Base.Outcome Base.GoInt Base.GoTypes Isa.Spec Isa.Seq.
From Maj Require Import Gen.Latency Gen.RiscTables Gen.Opcodes Comp.Cache Comp.Rat Mvp.Mvp12 Mvp.Mvp3 Mvp.Mvp5 Mvp.Mvp60 Mvp.Mvp63 Mvp.Mvp80.
From Maj Require Import Mvp.Mvp60Proofs Mvp.Mvp63Proofs Mvp.Mvp80Proofs Mvp.Mvp80RegOnly Mvp.Mvp80RegOnly63.
Import ListNotations.
Open Scope Z_scope.

Definition cx_prog : list instr :=
  [I_j (mk_j 1); I_add (mk_add 7 5 0); I_ret mk_ret] ++ repeat (I_nop mk_nop) 499 ++
  [I_li (mk_li 5 77); I_j (mk_j 2)].
Definition cx_labels : Z -> option Z :=
  fun l => if l =? 1 then Some 2008 else if l =? 2 then Some 4 else None.
Definition cx_st : arch := st_of [(5, 1)] [].

(* what the two variants return *)
Lemma cx_runs : forall par, In par [1; 2; 3; 4]%nat ->
  regonly cx_prog = true /\
  (exists s3, mvp63_run_os par ord_asc 3000 cx_prog cx_labels cx_st = (MDone 638 s3, false) /\ nth 7 (regs s3) 0 = 77) /\
  (exists s8, mvp80_run_os par ord_asc 3001 cx_prog cx_labels cx_st = (MDone 639 s8, false) /\ nth 7 (regs s8) 0 = 1).
Proof.
  intros par [<-|[<-|[<-|[<-|[]]]]];
  (split; [vm_compute; reflexivity|]);
  (split; (eexists; split; [vm_compute; reflexivity | vm_compute; reflexivity])).
Qed.

Theorem mvp80_regonly_differs_from_mvp63 :
  exists par ord fuel app labels st r os,
    regonly app = true /\ r <> MOutOfFuel /\
    mvp63_run_os par ord fuel app labels st = (r, os) /\
    mvp80_run_os par ord (S fuel) app labels st <> (plus_one_cycle r, os).
Proof.
  destruct (cx_runs 1%nat (or_introl eq_refl)) as [RO [[s3 [E3 R3]] [s8 [E8 R8]]]].
  exists 1%nat, ord_asc, 3000%nat, cx_prog, cx_labels, cx_st, (MDone 638 s3), false.
  split; [exact RO|]. split; [discriminate|]. split; [exact E3|].
  change (S 3000) with 3001%nat. rewrite E8. cbn [plus_one_cycle]. intro H.
  assert (S8 : s8 = s3) by congruence. rewrite S8 in R8. rewrite R3 in R8. discriminate.
Qed.

Theorem mvp80_regonly_equals_mvp63_refuted : ~ mvp80_regonly_equals_mvp63_statement.
Proof.
  intro H.
  destruct mvp80_regonly_differs_from_mvp63 as [par [ord [fuel [app [labels [st [r [os [RO [NF [E3 NE]]]]]]]]]]].
  apply NE. exact (H par ord fuel app labels st r os RO NF E3).
Qed.

Print Assumptions mvp80_regonly_differs_from_mvp63.
Print Assumptions mvp80_regonly_equals_mvp63_refuted.
